"""Shared machinery for /verif/check: harness build, TLC runs, graph extraction, verdicts, evidence."""
import fcntl
import json
import os
import re
import shutil
import subprocess
import sys
import time

VERIF = os.path.dirname(os.path.dirname(os.path.abspath(__file__)))
SPECS = os.path.join(VERIF, "specs")
HARNESS = os.path.join(VERIF, "harness")
TARGET = os.path.join(HARNESS, "target")
VH = os.path.join(TARGET, "release", "vh")
EVID = os.path.join(VERIF, "evidence")
REPLAYS = os.path.join(EVID, "replays")


class ToolError(Exception):
    pass


def log(*a):
    print(*a, file=sys.stderr, flush=True)


def workdir(prop):
    d = os.path.join(TARGET, "work", f"{prop}.{os.getpid()}")
    shutil.rmtree(d, ignore_errors=True)
    # scratch of earlier runs of the same property whose process is gone
    base = os.path.join(TARGET, "work")
    if os.path.isdir(base):
        for name in os.listdir(base):
            p, _, pid = name.rpartition(".")
            if p == prop and pid.isdigit() and not os.path.exists(f"/proc/{pid}"):
                shutil.rmtree(os.path.join(base, name), ignore_errors=True)
    os.makedirs(d, exist_ok=True)
    return d


def build_harness():
    """cargo build of the harness (rebuilds dust_dds from /repo's working tree); serialised by flock."""
    os.makedirs(TARGET, exist_ok=True)
    lock = open(os.path.join(TARGET, ".build.lock"), "w")
    fcntl.flock(lock, fcntl.LOCK_EX)
    try:
        t0 = time.time()
        env = dict(os.environ)
        env["CARGO_NET_OFFLINE"] = "true"
        env.pop("RUSTFLAGS", None)  # the harness' .cargo/config.toml provides the hook cfg
        p = subprocess.run(["cargo", "build", "--release", "--offline"], cwd=HARNESS, env=env,
                           stdout=subprocess.PIPE, stderr=subprocess.STDOUT, text=True)
        if p.returncode != 0:
            log(p.stdout[-6000:])
            raise ToolError("harness build failed")
        log(f"[build] harness built in {time.time()-t0:.1f}s")
    finally:
        fcntl.flock(lock, fcntl.LOCK_UN)
        lock.close()


def parse_cfg(cfg_path):
    """Extract `NAME = value` / `NAME <- Def` constants of a TLC cfg as a JSON-able dict."""
    out = {}
    txt = open(cfg_path).read()
    txt = re.sub(r"\\\*.*", "", txt)
    for m in re.finditer(r"^\s*(\w+)\s*(=|<-)\s*(.+?)\s*$", txt, re.M):
        k, op, v = m.group(1), m.group(2), m.group(3)
        if op == "<-":
            out[k] = v
            continue
        if v in ("TRUE", "FALSE"):
            out[k] = (v == "TRUE")
        elif re.fullmatch(r"-?\d+", v):
            out[k] = int(v)
        elif v.startswith("{"):
            items = [x.strip() for x in v.strip("{}").split(",") if x.strip()]
            vals = []
            for x in items:
                if re.fullmatch(r"-?\d+", x):
                    vals.append(int(x))
                else:
                    vals.append(x.strip('"'))
            out[k] = vals
        else:
            out[k] = v.strip('"')
    return out


TLC_STATS = re.compile(r"(\d+) states generated, (\d+) distinct states found, (\d+) states left on queue")


def _spec_digest(module, cfg):
    """sha256 over the module, its configuration and every local module it (transitively) EXTENDS / INSTANCEs"""
    import hashlib
    seen, todo = set(), [module]
    h = hashlib.sha256()
    h.update(open(os.path.join(SPECS, cfg), "rb").read())
    while todo:
        m = todo.pop()
        f = os.path.join(SPECS, m + ".tla")
        if m in seen or not os.path.exists(f):
            continue
        seen.add(m)
        text = open(f).read()
        h.update(m.encode() + b"\0" + text.encode())
        for line in text.splitlines():
            mm = re.match(r"\s*EXTENDS\s+(.*)", line)
            if mm:
                todo += [x.strip() for x in mm.group(1).split(",")]
            mm = re.search(r"INSTANCE\s+(\w+)", line)
            if mm:
                todo.append(mm.group(1))
    return h.hexdigest()


def run_tlc_cached(module, cfg, wd, **kw):
    """Pure model checking of a specification does not depend on the code under test: its outcome (statistics, or the
    failure) is cached under harness/target/mc_cache keyed by the content of the specification and configuration.
    A fresh checkout has no cache, so the first check that needs a configuration computes it."""
    cdir = os.path.join(TARGET, "mc_cache")
    os.makedirs(cdir, exist_ok=True)
    key = _spec_digest(module, cfg)
    cf = os.path.join(cdir, f"{module}.{cfg}.{key[:24]}.json")
    if os.path.exists(cf):
        c = json.load(open(cf))
        if c.get("error"):
            raise ToolError(c["error"])
        c["stats"]["from_cache"] = True
        return c
    try:
        r = run_tlc(module, cfg, wd, capture_edges=False, **kw)
    except ToolError as e:
        json.dump({"error": str(e), "computed_at": time.strftime("%Y-%m-%dT%H:%M:%SZ", time.gmtime())}, open(cf, "w"))
        raise
    out = {"stats": dict(r["stats"], computed_at=time.strftime("%Y-%m-%dT%H:%M:%SZ", time.gmtime()), from_cache=False), "edges_raw": None, "out": None}
    tmp = cf + f".{os.getpid()}.tmp"
    json.dump(out, open(tmp, "w"))
    os.replace(tmp, cf)
    return out


def run_tlc(module, cfg, wd, workers=4, timeout=900, extra=(), env_extra=None, capture_edges=True,
            simulate=None):
    """Run TLC on specs/<module>.tla with specs/<cfg>. Returns dict with stats, edges path, output tail.
    A TLC failure (invariant violated, parse error) is a ToolError: it is about the spec, not the code."""
    meta = os.path.join(wd, "tlc_" + cfg.replace(".cfg", ""))
    os.makedirs(meta, exist_ok=True)
    outp = os.path.join(wd, cfg.replace(".cfg", "") + ".tlc.out")
    cmd = ["timeout", str(timeout), "tlc", "-workers", str(workers), "-metadir", meta, "-cleanup",
           "-noGenerateSpecTE", "-coverage", "1", "-config", cfg]
    if simulate:
        cmd += ["-simulate", simulate]
    cmd += list(extra) + [module + ".tla"]
    env = dict(os.environ)
    if env_extra:
        env.update(env_extra)
    t0 = time.time()
    with open(outp, "w") as f:
        p = subprocess.run(cmd, cwd=SPECS, stdout=f, stderr=subprocess.STDOUT, env=env)
    wall = time.time() - t0
    stats = {"generated": 0, "distinct": 0, "wall_s": round(wall, 2), "cmd": " ".join(cmd)}
    ok = False
    tail = []
    edges_path = os.path.join(wd, cfg.replace(".cfg", "") + ".edges.raw")
    nedges = 0
    cover = {}
    with open(outp, errors="replace") as f, open(edges_path, "w") as ef:
        for line in f:
            if line.startswith('<<"EDGE", "'):
                if capture_edges:
                    ef.write(line)
                nedges += 1
                continue
            tail.append(line)
            if len(tail) > 400:
                tail = tail[-200:]
            m = TLC_STATS.search(line)
            if m:
                stats["generated"], stats["distinct"] = int(m.group(1)), int(m.group(2))
            if "Model checking completed. No error has been found." in line:
                ok = True
            m = re.match(r"<(\w+) line \d+, col \d+ to line \d+, col \d+ of module (\w+)>: (\d+):(\d+)", line)
            if m:
                cover[m.group(1)] = cover.get(m.group(1), 0) + int(m.group(4))
    stats["edges"] = nedges
    stats["coverage"] = cover
    shutil.rmtree(meta, ignore_errors=True)
    if simulate is None and not ok:
        log("".join(tail[-60:]))
        raise ToolError(f"TLC did not complete cleanly on {module}/{cfg} (rc={p.returncode}); "
                        "this is a specification/tool error, not a verdict on the code")
    return {"stats": stats, "edges_raw": edges_path, "out": outp}


def tla_unescape(s):
    # TLC prints the string with \" and \\ escapes
    out = []
    i = 0
    while i < len(s):
        c = s[i]
        if c == "\\" and i + 1 < len(s):
            n = s[i + 1]
            if n == "n":
                out.append("\n")
            elif n == "t":
                out.append("\t")
            else:
                out.append(n)
            i += 2
        else:
            out.append(c)
            i += 1
    return "".join(out)


def build_graph(edges_raw, out_path):
    """EDGE lines -> ndjson graph with integer state ids. Returns (nstates, nedges)."""
    ids = {}
    edges = []

    def sid(st):
        k = json.dumps(st, sort_keys=True, separators=(",", ":"))
        if k not in ids:
            ids[k] = len(ids)
        return ids[k]

    init = None
    with open(edges_raw) as f:
        for line in f:
            line = line.rstrip("\n")
            if not line.startswith('<<"EDGE", "'):
                continue
            body = line[len('<<"EDGE", "'):]
            if body.endswith('">>'):
                body = body[:-3]
            rec = json.loads(tla_unescape(body))
            s, d = sid(rec["s"]), sid(rec["d"])
            ds = dict(rec["d"])
            ds.pop("aux", None)
            edges.append({"s": s, "d": d, "o": rec["o"], "ds": ds})
    # the initial state is the only one with no incoming edge from a different state at depth 0:
    # by construction the first emitted edge starts in the initial state
    if not edges:
        raise ToolError("no transitions emitted by TLC")
    targets = {e["d"] for e in edges if e["d"] != e["s"]}
    roots = [i for i in range(len(ids)) if i not in targets]
    init = roots[0] if roots else edges[0]["s"]
    with open(out_path, "w") as f:
        f.write(json.dumps({"init": init, "nstates": len(ids)}) + "\n")
        for e in edges:
            f.write(json.dumps(e, separators=(",", ":")) + "\n")
    return len(ids), len(edges)


def run_vh(args, timeout=1800):
    p = subprocess.run([VH] + args, stdout=subprocess.PIPE, stderr=subprocess.PIPE, text=True, timeout=timeout)
    if p.returncode != 0:
        log(p.stdout[-3000:], p.stderr[-3000:])
        raise ToolError(f"harness failed: vh {' '.join(args)} rc={p.returncode}")
    return p.stdout


def load_known():
    p = os.path.join(VERIF, "known_findings.json")
    if not os.path.exists(p):
        return {"findings": [], "fixed": []}
    return json.load(open(p))


def write_evidence(prop, tier, seed, level, coverage, wall, violations, assumptions):
    os.makedirs(EVID, exist_ok=True)
    ev = {"property_id": prop, "tier": tier, "seed": seed, "level": level, "coverage": coverage,
          "assumptions": assumptions, "wall_s": round(wall, 2), "violations": violations}
    tmp = os.path.join(EVID, f".{prop}.{os.getpid()}.tmp")
    with open(tmp, "w") as f:
        json.dump(ev, f, indent=1)
    os.replace(tmp, os.path.join(EVID, f"{prop}.json"))


def save_replay(prop, name, content):
    d = os.path.join(REPLAYS, prop)
    os.makedirs(d, exist_ok=True)
    p = os.path.join(d, name + ".json")
    with open(p, "w") as f:
        json.dump(content, f, indent=1)
    return p
