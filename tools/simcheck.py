"""Binding B: run scenarios in the deterministic simulation of the real code, validate the recorded
traces against a TLA+ trace specification with TLC, turn rule violations into verdicts."""
import json
import os
import re
import subprocess
import time
from concurrent.futures import ThreadPoolExecutor

import tracenorm
import vlib
from vlib import ToolError, log


def run_sim_batch(scenarios, wd, tag, jobs=4):
    """Run scenarios (list of dicts) through `vh sim`; returns list of per-scenario event lists (raw)."""
    chunks = [scenarios[i::jobs] for i in range(jobs)]
    index = [list(range(len(scenarios)))[i::jobs] for i in range(jobs)]

    def one(k):
        if not chunks[k]:
            return []
        sp = os.path.join(wd, f"{tag}.scen.{k}.ndjson")
        with open(sp, "w") as f:
            for sc in chunks[k]:
                f.write(json.dumps(sc) + "\n")
        outp = os.path.join(wd, f"{tag}.trace.{k}.ndjson")
        if os.path.exists(outp):
            os.remove(outp)
        start = 0
        guard = 0
        while start < len(chunks[k]):
            guard += 1
            if guard > len(chunks[k]) + 2:
                raise ToolError("simulation driver keeps failing")
            p = subprocess.run([vlib.VH, "sim", "--scenarios", sp, "--out", outp, "--start", str(start)],
                               stdout=subprocess.PIPE, stderr=subprocess.PIPE, text=True, timeout=3600)
            if p.returncode != 0:
                # a crash of the harness process (abort in the code under test, or the wall-clock watchdog): the scenarios
                # completed so far each left one Reset in the trace; the watchdog also records the hanging one itself
                lines = open(outp).read().splitlines() if os.path.exists(outp) else []
                resets = sum(1 for l in lines if re.search(r'"ev":\s*"Reset"', l[:60]))
                last_is_error = bool(lines) and re.search(r'"ev":\s*"SimError"', lines[-1]) is not None
                if p.returncode == 3 and last_is_error:
                    start = resets
                else:
                    crashed = resets
                    with open(outp, "a") as f:
                        f.write(json.dumps({"ev": "Reset", "name": chunks[k][min(crashed, len(chunks[k]) - 1)].get("name")}) + "\n")
                        f.write(json.dumps({"ev": "SimError", "scenario": crashed, "err": f"process exit {p.returncode}: {p.stderr[-300:]}"}) + "\n")
                    start = crashed + 1
                continue
            st = json.loads(p.stdout.strip().splitlines()[-1])
            start = st["done"]
            if st.get("error") is None:
                break
        # split by Reset
        runs = []
        cur = None
        for line in open(outp):
            if not line.strip():
                continue
            e = json.loads(line)
            if e["ev"] == "Reset":
                cur = []
                runs.append(cur)
            if cur is not None:
                cur.append(e)
        return runs

    with ThreadPoolExecutor(max_workers=jobs) as ex:
        parts = list(ex.map(one, range(jobs)))
    out = [None] * len(scenarios)
    for k in range(jobs):
        for j, run in enumerate(parts[k]):
            if j < len(index[k]):
                out[index[k][j]] = run
    return out


RES = re.compile(r'^<<"TRACE-RESULT", "(.*)">>\s*$')


def validate(spec, norm_path, wd, tag, timeout=900):
    """Run TLC on the trace spec; returns dict(lines, violations, counters, states)."""
    meta = os.path.join(wd, f"tlc_{tag}")
    env = dict(os.environ)
    env["TRACE"] = norm_path
    env["JAVA_TOOL_OPTIONS"] = "-Xss1g -Dtlc2.tool.queue.IStateQueue=StateDeque"
    cmd = ["timeout", str(timeout), "tlc", "-workers", "1", "-metadir", meta, "-cleanup", "-noGenerateSpecTE",
           "-config", spec + ".cfg", spec + ".tla"]
    outp = os.path.join(wd, f"{tag}.tlc.out")
    t0 = time.time()
    with open(outp, "w") as f:
        p = subprocess.run(cmd, cwd=vlib.SPECS, stdout=f, stderr=subprocess.STDOUT, env=env)
    res = None
    ok = False
    states = 0
    for line in open(outp, errors="replace"):
        m = RES.match(line)
        if m:
            res = json.loads(vlib.tla_unescape(m.group(1)))
        if "Model checking completed. No error has been found." in line:
            ok = True
        m = vlib.TLC_STATS.search(line)
        if m:
            states = int(m.group(2))
    if res is None or not ok:
        log(open(outp, errors="replace").read()[-4000:])
        raise ToolError(f"trace validation with {spec} did not complete (rc={p.returncode})")
    res["states"] = states
    res["wall_s"] = round(time.time() - t0, 2)
    res["cmd"] = "TRACE=<trace> " + " ".join(cmd)
    return res


def sim_check(prop, tier, seed, scenarios, spec, rule_filter, required_counters, level_note, keep_sleep=False,
              jobs=4, known_prefix=None, mc=None, norm=None):
    """scenarios: list of scenario dicts. rule_filter(rule)->bool selects the rules that are verdicts for this property
    (all rules are sound; the others are reported under the property that owns them when its own check runs)."""
    wd = vlib.workdir(prop)
    known = vlib.load_known()
    # 1. exhaustive model checking of the abstract model (a failure here is a spec/tool error)
    mc_runs = []
    for (module, cfg) in (mc or {}).get(tier, []):
        r = vlib.run_tlc_cached(module, cfg, wd, workers=6, timeout=3000)
        mc_runs.append({"module": module, "cfg": cfg, "distinct_states": r["stats"]["distinct"],
                        "generated": r["stats"]["generated"], "wall_s": r["stats"]["wall_s"],
                        "action_coverage": r["stats"]["coverage"], "cmd": r["stats"]["cmd"],
                        "result_from_cache": r["stats"].get("from_cache", False), "computed_at": r["stats"].get("computed_at")})
    if tier == "thorough":
        for (module, cfg) in (mc or {}).get("must_fail", []):
            try:
                vlib.run_tlc_cached(module, cfg, wd, workers=4, timeout=600)
            except ToolError:
                mc_runs.append({"module": module, "cfg": cfg, "self_test": "violated as required"})
                continue
            raise ToolError(f"self test: {cfg} should violate its invariant but TLC found no error (vacuous invariant?)")
    # 2. executions of the real code
    t0 = time.time()
    runs = run_sim_batch(scenarios, wd, "s", jobs=jobs)
    sim_wall = time.time() - t0
    # normalise + concatenate, remember line ranges per scenario
    norm_path = os.path.join(wd, "trace.norm.ndjson")
    ranges = []
    n = 0
    with open(norm_path, "w") as g:
        for k, run in enumerate(runs):
            if run is None:
                run = [{"ev": "Reset", "name": scenarios[k].get("name"), "frag": scenarios[k].get("frag")},
                       {"ev": "SimError", "err": "scenario not executed"}]
            start = n + 1
            for e in (norm or tracenorm.normalise)(run):
                if e["ev"] == "Sleep" and not keep_sleep:
                    continue
                if e["ev"] == "Other":
                    continue
                g.write(json.dumps(e, separators=(",", ":")) + "\n")
                n += 1
            ranges.append((start, n))
    res = validate(spec, norm_path, wd, "v")
    if res["lines"] != n:
        raise ToolError(f"trace spec consumed {res['lines']} of {n} lines")
    violations = []
    known_hits = {}
    other_rules = {}
    by_scn = {}
    for v in res["violations"]:
        k = next((i for i, (a, b) in enumerate(ranges) if a <= v["line"] <= b), None)
        by_scn.setdefault(k, []).append(v)
    seen_sigs = set()
    for k, vs in sorted(by_scn.items(), key=lambda kv: (kv[0] is None, kv[0])):
        for v in vs:
            rule = v["rule"]
            if not rule_filter(rule):
                other_rules[rule] = other_rules.get(rule, 0) + 1
                continue
            sc = scenarios[k] if k is not None else {}
            sig = f"{spec}:{rule}:{sc.get('family', '')}"
            kf = next((x for x in known["findings"] if sig.startswith(x["signature"])), None)
            if kf:
                known_hits.setdefault(sig, {"sig": sig, "what": f"{kf['what']} [{sig}]", "count": 0})
                known_hits[sig]["count"] += 1
                continue
            if sig in seen_sigs:
                continue
            seen_sigs.add(sig)
            name = re.sub(r"[^A-Za-z0-9_.-]", "_", f"{sc.get('name', 'scenario')}__{rule}")[:140]
            a, b = ranges[k]
            path = vlib.save_replay(prop, name, {
                "property": prop, "spec": spec, "rule": rule, "signature": sig, "line_in_scenario": v["line"] - a + 1,
                "t_us": v["t"], "scenario": sc, "rerun": f"./check {prop} --replay <this file>"})
            violations.append({"sig": sig, "what": f"{rule} in scenario {sc.get('name')} (event {v['line'] - a + 1}, t={v['t']}us)",
                               "replay": path})
    missing = [c for c, m in required_counters.items() if res["counters"].get(c, 0) < m]
    # a vacuity guard protects a PASS verdict; when the rules already found violations the low counters are a consequence of the
    # broken behaviour (scenarios that hang or crash produce fewer events), not a reason to withhold the verdict
    if missing and not violations:
        raise ToolError(f"vacuity guard: counters {missing} too low: {res['counters']}")
    samples = []
    for k in (0, len(scenarios) // 2, len(scenarios) - 1):
        if 0 <= k < len(scenarios):
            samples.append({"scenario": scenarios[k], "events": ranges[k][1] - ranges[k][0] + 1})
    nontrivial = sum(1 for k, run in enumerate(runs) if run and any(e["ev"] in ("Drop", "Dup", "Delay") for e in run))
    coverage = {
        "states": res["states"] + sum(m.get("distinct_states", 0) for m in mc_runs),
        "transitions": res["lines"] + sum(m.get("generated", 0) for m in mc_runs),
        "model_checking_runs": mc_runs,
        "traces_validated_against_impl": len(scenarios),
        "evaluations": len(scenarios),
        "distinct_nontrivial": nontrivial,
        "rule": "one case = one scenario (API calls + seeded/targeted network faults) executed on the real code in the "
                "deterministic simulation and validated event by event by TLC against " + spec + ".tla; non-trivial = "
                "scenarios in which the network actually dropped, duplicated or delayed a datagram",
        "trace_events": res["lines"],
        "rule_counters": res["counters"],
        "violations_of_rules_owned_by_other_properties": other_rules,
        "sim_wall_s": round(sim_wall, 2),
        "tlc_wall_s": res["wall_s"],
        "checker_cmd": res["cmd"],
        "samples": samples,
    }
    return {"level": "model_checking", "coverage": coverage, "violations": violations, "known": list(known_hits.values()),
            "assumptions": [level_note, "TLC and the CommunityModules (Json, IOUtils) are trusted",
                            "datagrams are decoded for the log with the crate's own RtpsMessageRead",
                            "the simulated network delivers datagrams whole or not at all; one virtual clock"]}


def sim_replay(prop, path, spec, keep_sleep=False, norm=None):
    rep = json.load(open(path))
    wd = vlib.workdir(prop + ".replay")
    runs = run_sim_batch([rep["scenario"]], wd, "r", jobs=1)
    norm_path = os.path.join(wd, "trace.norm.ndjson")
    with open(norm_path, "w") as g:
        for e in (norm or tracenorm.normalise)(runs[0] or []):
            if e["ev"] == "Other" or (e["ev"] == "Sleep" and not keep_sleep):
                continue
            g.write(json.dumps(e, separators=(",", ":")) + "\n")
    res = validate(spec, norm_path, wd, "v")
    print(json.dumps(res["violations"])[:3000])
    if any(v["rule"] == rep["rule"] for v in res["violations"]):
        print(f"VIOLATION property={prop} replay={path}")
        return 1
    return 0


def binding_selftest(wd, scenarios, spec="Trace_Rtps", norm=None):
    """Demonstrates that the trace specification really constrains the recorded executions: a recorded trace is accepted,
    the same trace with ONE field corrupted / one event removed is rejected with the expected rule. Raises ToolError
    otherwise (a vacuous trace specification would accept the corrupted traces)."""
    import copy
    runs = run_sim_batch(scenarios, wd, "selftest", jobs=4)
    events = []
    for run in runs:
        for e in (norm or tracenorm.normalise)(run or []):
            if e["ev"] in ("Other", "Sleep"):
                continue
            events.append(e)

    def check(tag, evs):
        path = os.path.join(wd, f"selftest.{tag}.ndjson")
        with open(path, "w") as g:
            for e in evs:
                g.write(json.dumps(e, separators=(",", ":")) + "\n")
        res = validate(spec, path, wd, "st_" + tag)
        return sorted(set(v["rule"] for v in res["violations"]))

    base = check("base", events)
    if base:
        raise ToolError(f"binding self test: the unmodified trace is rejected: {base}")
    take_idx = next(k for k, e in enumerate(events) if e["ev"] == "Take" and len(e.get("samples", [])) >= 1)
    results = {}
    # 1. a sample presented twice
    m = copy.deepcopy(events)
    m[take_idx]["samples"].append(copy.deepcopy(m[take_idx]["samples"][0]))
    results["duplicated sample in a take"] = check("dup", m)
    # 2. a corrupted payload
    m = copy.deepcopy(events)
    m[take_idx]["samples"][0]["ok"] = 0
    results["corrupted payload flag"] = check("corrupt", m)
    # 3. a presented sample that was never written
    m = copy.deepcopy(events)
    m[take_idx]["samples"][0]["seq"] = 9999
    results["sample that was never written"] = check("phantom", m)
    # 4. a write whose return is removed (the DATA on the wire is then not justified by the API history)
    m = [e for k, e in enumerate(events) if not (e["ev"] in ("WriteCall", "WriteRet") and k < take_idx and e.get("seq") == 1)]
    results["write removed from the history"] = check("nowrite", m)
    missed = [k for k, v in results.items() if not v]
    if missed:
        raise ToolError(f"binding self test: corrupted traces were ACCEPTED by {spec}: {missed}")
    return results
