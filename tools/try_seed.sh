#!/bin/bash
# try_seed.sh <seed-dir-name> <prop> [<prop>...] : apply the seeded change to /repo, run the checks, undo
S=/verif/seeded/$1; shift
P=$S/patch.diff; [ -f $S/patch_ported.diff ] && P=$S/patch_ported.diff
git -C /repo apply $P || { echo "PATCH DOES NOT APPLY"; exit 2; }
for p in "$@"; do
  (cd /verif && ./check $p 2>&1 | grep -E "VIOLATION|KNOWN|TOOL-ERROR|^\[" | cut -c1-300)
done
git -C /repo checkout -- .
# rebuild the harness against the restored tree so that later --no-build runs do not use the seeded binary
(cd /verif/harness && cargo build --release --offline > /dev/null 2>&1)
