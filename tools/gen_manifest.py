#!/usr/bin/env python3
"""Regenerates /verif/MANIFEST.json from the table below (single source of truth for the interface)."""
import json, sys
import os
import subprocess

VERIF = os.path.dirname(os.path.dirname(os.path.abspath(__file__)))

RC_NOTE = ("Trusted: TLC, CommunityModules Json; the Rust harness' table-driven mapping of abstract values to "
           "handles/guids/timestamps; the object is driven through cfg(dust_dds_verif) re-exports of "
           "UserDefinedDataReader/DataReaderEntity (no behaviour change). Bounded model: 1-3 instances, 1-2 writers, "
           "<= 6 receptions, <= 2 accesses.")


def rc_text(what):
    return ("ReaderCache.tla (one action per public call of the reader history cache) is explored exhaustively by TLC "
            "for a per-property configuration with declarative invariants over the reception history; every "
            "transition of that state graph is then executed on the real DataReaderEntity/UserDefinedDataReader "
            "and both the call result and the full projected cache state are compared with the specification's. "
            "Configurations named *_walk (C18 C19 C21 C22 C24 C25) are larger (two instances x two writers x all change "
            "kinds x limits) and explored by TLC's simulation mode (150 behaviours of depth 14 quick, 1500 x 16 thorough, "
            "seeded); their transitions are replayed the same way. "
            + what)


SIM_NOTE = ("Trusted: TLC, CommunityModules (Json, IOUtils); the deterministic simulation (harness/src/sim.rs: single-threaded "
            "executor, virtual clock, in-memory network implementing the public DdsRuntime/TransportParticipantFactory traits, "
            "no source changes); datagrams are decoded for the log by the crate's own RtpsMessageRead; one worker iteration is "
            "atomic. Bounds: 1 writer, 1-3 readers, <= 8 samples per scenario, fault schedules: all single (quick) / pairs "
            "(thorough) of targeted drop/dup/delay on first transmissions + seeded random loss/dup/delay; liveness is bounded "
            "(heal + 3 s quiescence).")


def sim_text(what):
    return ("Rtps.tla is the explicit model of the writer/reader protocol envelope checked exhaustively by TLC for small constants; "
            "Trace_Rtps.tla binds it to the code: every scenario is executed by the real participants in a deterministic "
            "simulation (controlled loss/duplication/reordering/delay and virtual time) and TLC validates the recorded trace "
            "event by event (sender-justified DATA/GAP/HEARTBEAT, receiver-sound ACKNACK/take, API results, bounded liveness "
            "after heal). Besides the targeted families every check runs a seeded 'rich' family: one writer with random QoS, up to three "
            "late-joining / deleted readers with random compatible QoS, random write / dispose / unregister over three instances, takes, "
            "faults switched on and off, partitions and batched bursts (several DATA in one RTPS message). " + what)


TECH_SIM = "explicit TLA+ spec; executions of the real code in a deterministic simulation validated by TLC against the trace specification (impl->spec conformance), fault patterns enumerated + seeded"

SIM_CHECKS = [
    ("C01", "model_checking", sim_text("Decides exactly-once in-order intact delivery and eventual delivery of retained samples."), "5.1, 6 C01"),
    ("C02", "model_checking", sim_text("Decides the best-effort subsequence/no-duplicate/no-corruption property."), "5.1, 6 C02"),
    ("C03", "model_checking", sim_text("Decides soundness of wait_for_acknowledgments (success implies delivery) and its completion after heal, reader deletion and silent participant departure."), "5.1, 6 C03"),
    ("C04", "model_checking", sim_text("Decides durability: history for late TRANSIENT_LOCAL readers (per-instance depth), none for VOLATILE, wait_for_historical_data. Trace_Hist.tla covers a reader matched with two or three TRANSIENT_LOCAL writers (one per participant, the user traffic of one held back): wait_for_historical_data may only return Ok when every sample written so far is presented by the next take."), "5.1, 6 C04"),
    ("C05", "model_checking", sim_text("Decides fragment numbering/length/reassembly for fragment sizes 8..65000 at payload sizes k*f-4, k*f, k*f+4 under fragment-level faults."), "5.1, 6 C05"),
    ("C16", "model_checking", "Trace_Discovery.tla states the matched set of every endpoint as a function of the live, compatible (Compat rules), reachable, non-ignored remote endpoints and derives current_count/total_count/change fields from the history of match events; randomized histories of remote endpoint creation, QoS update (compatible and incompatible), deletion, participant deletion and silent departure interleaved with status reads, plus deterministic families (silent departure beyond the lease for reliable/best-effort writers and readers; every three-step deadline history of a remote reader) are executed by real participants in the deterministic simulation and every observed status is compared by TLC with the specification's value; emissions to departed readers are flagged.", "5.3, 6 C16"),
    ("C17", "model_checking", "Trace_Discovery.tla gives, for every observation of get_discovered_participants, the participants that must and must not be known: same domain id and tag, not ignored, lease window [last communication + lease, + one worker period] for silent participants, rediscovery after heal. Scenario families (isolation by domain/tag, lease expiry with virtual time, rediscovery, ignore, announcement loss) run on real participants in the simulation and are validated event by event by TLC.", "5.3, 6 C17"),
    ("C30", "model_checking", "Trace_Worker.tla computes, from the recorded write / reception times, the number of full deadline periods that elapsed per instance (Missed) and accepts an observed offered/requested deadline-missed total_count only inside [count one worker period earlier, count now]; every listener callback must carry total_count = k and total_count_change = 1 and be justified by a missed period; at the end every missed period must have been signalled. Timing patterns (gaps of 0.3..3.7 periods, 1-2 instances, deadlines 20 ms..1 s, simultaneous writes) run on the real worker with the virtual clock.", "5.5, 6 C30"),
    ("C31", "model_checking", "Every duration the worker passes to Timer::delay is recorded by the simulated timer and Trace_Worker.tla requires 0 <= d <= 50 ms on each of them, in scenario families that make each time_until_* term the minimum, including already overdue ones (deadlines shorter than the worker period, lifespans, blocked writes released by a lease expiry long after the lifespan of the blocked sample, lease expiry, announcements), also with a virtual clock that moves between two reads inside one worker iteration (clock-drift family: 0.7 / 100 / 300 us per read); Timeout of a blocked write within max_blocking_time + one period is judged by Trace_Rtps (C27 family).", "5.5, 6 C31"),
    ("C06", "model_checking", "Adversary.tla describes the datagrams an adversary can send: every RTPS submessage kind (DATA, DATA_FRAG, HEARTBEAT, HEARTBEAT_FRAG, GAP, ACKNACK, NACK_FRAG, INFO_TS/DST/SRC/REPLY/REPLY_IP4, PAD, unknown, vendor specific) with each field ranging over its default and boundary alternatives (sequence numbers 0, -1, 2^32, 2^63-1, -2^63; bitmap sizes up to 2^32-1 with missing/surplus words; fragment numbers/sizes 0, 65535, 2^32-1; lengths zero/short/beyond the datagram/odd; payloads and parameter lists empty, truncated, unterminated, with huge collection lengths, spoofed GUIDs), source prefix known/unknown/victim/zero, user and built-in (SPDP, SEDP, liveliness, type lookup) target endpoints, header and truncation variants, INFO_* prefixes, pairs of DATA_FRAG submessages that disagree, HEARTBEAT / GAP / DATA behind a partial fragment, and a GAP that leaves a hole behind the next expected change followed by a HEARTBEAT (the ACKNACK then describes a non-contiguous missing set up to the 256-bit limit). TLC enumerates all messages with at most two fields off their default (7 760); the harness encodes each byte by byte (own encoder) and injects it into a victim participant with live reliable endpoints in both directions inside the simulation; Inject must be a stuttering step for well behaved peers: no panic, no hang (wall-clock watchdog), heap growth <= 100 x datagram length + 4 MB (counting allocator), and afterwards a fresh participant must discover, match and exchange a sample in each direction with the victim; traces are validated by TLC against Trace_Adversary.tla. Quick: all single-field variants, header/truncation/prefix variants and a seeded quarter of the two-field variants; thorough: all.", "6 C06"),
    ("C26", "model_checking", "Trace_Filter.tla: a writer publishes samples of the related topic; on another participant a reader on a content filtered topic (member = %0 or member <= %0 on an INT32 key, an INT32 member or a STRING member, several spellings of the expression) and a control reader on the related topic take samples; in every second scenario a second filtered reader of the same subscriber with the same expression and another parameter takes samples too and is judged by its own filter. Rules: every presented sample was written, is unchanged, passes the filter and is presented once; at the end every passing sample the related topic delivered was presented by the filtered reader. Scenario families: bursts, gaps, seeded loss/duplication/reordering, TRANSIENT_LOCAL late joiners and 'batched' (the simulated network merges the held datagrams of the writer into one RTPS message with several DATA submessages, as a batching peer would send them); traces validated event by event by TLC.", "6 C26"),
    ("C27", "model_checking", sim_text("Decides that a reliable KEEP_LAST write evicts only acknowledged samples, blocks otherwise and times out within max_blocking_time + one worker period. WriterAcks.tla specifies which changes count as acknowledged (every matched reliable reader acknowledged them with an ACKNACK addressed to THIS writer, from a matched reader, with a fresh count; ACKNACKs for a sibling writer of the participant, from unknown or best-effort readers or with a stale count change nothing); all histories of <= 5 calls (add_change, add/delete_matched_reader, on_acknack_submessage_received over 2 readers + a stranger, 2 sequence numbers) are replayed on the real RtpsStatefulWriter and is_change_acknowledged of every sequence number is compared after every call."), "5.1, 6 C27"),
    ("C29", "model_checking", sim_text("Decides that no DATA/DATA_FRAG of a sample is emitted after source timestamp + lifespan (first transmission, repair, history)."), "5.1, 6 C29"),
]

GRAPH_NOTE = ("Trusted: TLC, CommunityModules Json; the object is driven through cfg(dust_dds_verif) re-exports (no behaviour change); "
              "the transition-by-transition replay reaches a model state through one representative path (the order of the outgoing edges "
              "is permuted by the seed, three orders in the thorough tier); in addition random walks through the graph (200 per "
              "configuration quick, 1000 thorough) are executed as whole behaviours on one object and compared after every step, so that "
              "an effect an earlier call left behind outside the projection is met by later calls. Configurations named *_walk are larger "
              "models explored by TLC's simulation mode. The projection always comes from the object under test.")

OTHER_CHECKS = [
    ("C32", "model_checking",
     "StatusWait.tla models the status condition (changed, enabled, registered waiters) with WaitSet::wait split into its register / await steps; TLC checks NoLostWakeup for all interleavings of raise / read / set_enabled_statuses / register / await with two waiters, and every transition is replayed on the real DcpsStatusCondition with real notification channels (waiter state compared after every step). In addition WaitSetAsync::wait runs in the simulation against real status changes and set_enabled_statuses issued while it is blocked; Trace_Worker.tla requires it to return iff an attached condition is or becomes true.",
     "5.6, 6 C32", GRAPH_NOTE, "explicit TLA+ spec + TLC; every transition replayed on the real object; simulation traces validated by TLC"),
    ("C33", "model_checking",
     "MC_Dispatch.tla defines the dispatch function (most specific enabled listener, DATA_ON_READERS precedence) and TLC enumerates all 72 (status kind x three masks x DATA_ON_READERS) configurations; each configuration is raised by a real event (match, data, deadline miss, rejection, incompatible QoS) in the simulation with recording listeners at reader/writer, subscriber/publisher and participant level: the callback must arrive at exactly the specified level, nowhere else, and once per status change.",
     "5.6, 6 C33", "Trusted: TLC; recording listeners; a listener object is installed wherever a mask is non-empty; liveliness / sample-lost / inconsistent-topic statuses are not raised.",
     "TLA+ dispatch function enumerated exhaustively by TLC; each configuration replayed end-to-end in the deterministic simulation"),
    ("C35", "model_checking",
     "Entities.tla models the entity tree with one action per public create/delete/use call; TLC enumerates all histories of <= 5 operations over 3 publishers, 2 subscribers, a topic, a writer and a reader, and every transition is replayed through the async API on a participant whose 8-bit publisher/subscriber counters were first advanced to 254, so that the counter wraps inside every replayed history: the action Churn (255 create/delete cycles of publishers and subscribers INSIDE the history) lets the counters go once around while the entities created so far are alive; after every operation all simultaneously existing entities must have distinct instance handles, the call must return (a panic or stall of the worker is a violation) and give the specified result.",
     "5.8, 6 C35", GRAPH_NOTE + " The 16-bit topic/reader/writer counters are not warmed to their wrap (65 536 creations per replay is too slow); RTPS GUIDs are not compared separately (the handle of these entities is their GUID).",
     "explicit TLA+ spec + TLC; every transition replayed through the public API in the deterministic simulation after counter warm-up"),
    ("C08", "model_checking",
     "Wire.tla: abstract RTPS messages (header + submessages as records; 64 bit values named; sets as base + offsets) with EncLen, the octetsToNextHeader of every submessage kind as a function of its fields (bitmap words, inline QoS parameters with padding and sentinel, payload length), LenField (0 for a last submessage above 65535 octets) and the total message length. TLC enumerates every submessage kind with at most two fields off the default (sequence numbers up to 2^63-1, set offsets {}, {0}, {31}, {32}, {255}, ..., counts, flags, entity ids, inline QoS variants, payloads of 0..200 000 octets), alone, in front of a HEARTBEAT and behind an INFO_TS (3 7xx messages). For each the harness lets the library encode the message, compares every length field and the total with the specification, compares the bytes with an independent encoder, and decodes the library's bytes and the independent little- and big-endian encodings with the library, comparing every field with the abstract message.",
     "5.11, 6 C08", "Trusted: TLC, the independent encoder and the name->number mapping in harness/src/wire.rs. INFO_REPLY / PAD / vendor submessages only as received messages (C06).",
     "explicit TLA+ spec of the message structure and encoded lengths; TLC-enumerated messages encoded/decoded by the library and compared with the specification and an independent encoder"),
    ("C11", "model_checking",
     "KeyHash.tla defines the key of a type (key members in declaration order, nested ones included), its big-endian CDR serialization and SameInstance; TLC evaluates it on 666 (type, value) cases over 10 key types (single / multiple / nested / whole-structure / string keys, 16 and 17 octet keys). The harness computes the instance handle of real samples of the corresponding Rust types twice with different non-key members, compares all 132 k value pairs of a type (same handle iff same key) and, in the simulation, compares the handle returned by register_instance with the handle of the sample a remote reader presents and with the handle of the disposed instance (derived from the key-only payload); every value is also sent as a sample so large that it is fragmented (DATA_FRAG carries no inline QoS: the key hash does not travel and the reader derives the handle from the whole payload), for types whose key is not a prefix of the sample and for a type whose only key member lies in a nested struct.",
     "6 C11", "Trusted: TLC; the Rust types of harness/src/keyhash.rs mirror MC_KeyHash.tla by hand. Both cases of 'whether or not the key hash travels' are exercised (small samples carry PID_KEY_HASH, fragmented ones do not).",
     "explicit TLA+ spec of key extraction and identity; TLC-evaluated cases compared with the real handle computation and with writer/reader handles in the simulation"),
    ("C12", "model_checking",
     "KeyHash.tla: KeyHash(type, value) = big-endian CDR octets of the key members zero padded to 16 when MaxSize(type) <= 16, otherwise the MD5 digest of those octets (the specification gives the octets to digest). TLC computes octets, MaxSize and the decision for 666 cases (98 padded, 568 MD5; bounded keys of exactly 16 and 17 octets; unbounded string keys with short and long values); the harness compares the real instance handle and, end to end, the handle register_instance returns (= PID_KEY_HASH sent) and the handle the remote reader uses, also for fragmented samples that carry no key hash.",
     "6 C12", "Known finding: the implementation decides on the actual instead of the maximum serialized size (short values of unbounded string keys are padded instead of hashed). 64 bit members (XCDR1 vs XCDR2 alignment is ambiguous in the property) and explicit member ids are outside the type language.",
     "explicit TLA+ spec of the key hash (octets, maximum size, pad/MD5 decision) evaluated by TLC and compared with the implementation"),
    ("C14", "model_checking",
     "TimeConv.tla defines the wire conversion (fraction = ceil(ns*2^32/10^9) by long division on 16-bit limbs, back by Horner's rule, so that TLC's 32-bit integers suffice) and the saturating Add / Sub / New on normalized (sec, ns) values; TLC evaluates them on 31 413 boundary and sampled cases, checks RoundTrip, Normalized and Monotone on them and prints one CASE line per evaluation; the harness evaluates every conversion path (Duration<->rtps Duration, Duration<->wire Time, Time<->transport Time<->wire Time) and every operator (Time+Duration, Duration+-Duration, Time-Time, +=, ::new) of the code on each case, and sweeps ALL 10^9 nanosecond values through the code comparing with TimeConv!Frac and the round trip. TimeConvA.tla states the same functions on unbounded integers and Apalache proves RoundTripInv for every ns and ArithInv (normalized, monotone in every argument) for all operands of the full range.",
     "6 C14", "Trusted: TLC, Apalache/z3, the harness' case evaluation (harness/src/timeconv.rs). The limb definition (TLC) and the integer definition (Apalache) are linked through the implementation, not by a proof. Seconds are sampled at boundary values (they are copied by the conversions).",
     "explicit TLA+ spec; TLC-evaluated cases and an exhaustive nanosecond sweep compared with the code; Apalache proof of the round trip and of monotonicity over the unbounded domain"),
    ("C42", "model_checking",
     "StdTimer.tla models std_runtime/timer.rs step by step (Sleep poll: Ready iff now > deadline, every pending poll sends Wake(id, deadline); drop sends Cancel; the timer thread wakes every elapsed heap entry, then receives ONE message waiting at most until the next deadline) with a tick counter; TLC checks NeverEarly, NoEarlyWake, NoLostWakeup (the wake-up token of a pending sleep is always on the heap or in the queue) and NoWakeAfterCancel on all interleavings of 2 sleeps with spurious polls (272 k states); the unconditional 'a dropped sleep never wakes its task' (NoWakeAfterDrop) is shown NOT to hold for this design (must-fail configuration: a Cancel queued just before the deadline loses against the elapsed-entry sweep), so the implementation is judged with a 300 ms margin. Binding: the real TimerDriver / block_on / block_timeout (on futures that are chains of one to five sleeps, i.e. woken several times before completing) run under 8-16 concurrent threads; per sleep the harness records poll / ready / drop / wake-up times of one monotonic clock (it re-polls only when woken, so a lost wake-up shows up) and TLC validates the trace against Trace_Timer.tla: never Ready before the deadline, every kept sleep completes, a sleep dropped well before its deadline never wakes its task, block_on returns the output, block_timeout returns Timeout never before the duration and not when the future completed a second earlier.",
     "5.12, 6 C42", "Real-time behaviour: a recorded violation is re-examined by repeating the stress run, not replayed exactly. Liveness bounds are generous (5 s) to stay quiet on a loaded machine (checked with 48 busy loops on 16 cores). The executor's spawn/join are covered only indirectly.",
     "explicit TLA+ spec + TLC (exhaustive interleavings of the timer thread and sleepers); wall-clock traces of the real timer under concurrent stress validated by TLC against the trace specification"),
    ("C28", "model_checking",
     "WriterInst.tla: one action per DataWriterAsync call (register_instance, unregister_instance, dispose, write, lookup_instance, enable) on a writer created on a keyed or keyless type, enabled or not yet enabled; the abstract state is the set of registered keys; TLC enumerates all histories of <= 6 calls over 2 keys (39 states, 325 transitions) and every transition is replayed on a real writer inside the deterministic simulation: return code, returned handle (= big-endian key padded to 16 bytes) and, after every step, lookup_instance of every key are compared.",
     "6 C28", GRAPH_NOTE + " RESOURCE_LIMITS.max_instances is in the model (configuration MC_WriterInst_limit: a known instance never needs a new entry, a new one is refused with OutOfResources at the limit; dust-dds keeps the entry of an unregistered instance, the model follows the code); the handle argument of write/dispose/unregister is ignored by the implementation and not modelled; lookup_instance on a keyless type is not constrained.",
     "explicit TLA+ spec + TLC; every transition replayed through the public API in the deterministic simulation"),
    ("C37", "model_checking",
     "Qos.tla: QoS values are records of the policies the rules talk about (reliability, history, resource limits, deadline, time based filter, representation, user/topic/group data, presentation, partition); Consistent and ImmutableChanged are defined per entity kind; actions Create / SetQos / Enable with the DDS return code, the QoS held afterwards and what a remote participant sees (Announced). TLC enumerates all histories of <= 4 calls over curated value sets that hit every rule (6 kinds: writer, reader, topic, publisher, subscriber, participant; 170 states, 1 004 transitions; invariants AlwaysConsistent, ImmutableKept). Every transition is replayed on real entities inside the deterministic simulation with two participants: return code, get_qos and the QoS read from the second participant's built-in readers (DCPSPublication, DCPSSubscription, DCPSTopic, DCPSParticipant) are compared after every step.",
     "6 C37", GRAPH_NOTE + " Value sets are curated (5-8 values per kind), not the full QoS space; durability, liveliness, ownership, destination order as immutable policies are represented by reliability/history/resource limits only; The factory defaults are in the model (variable dflt: set_default_<kind>_qos with consistent / inconsistent values and QosKind::Default, create and set_qos with QosKind::Default, get_default_<kind>_qos compared after every step; configurations MC_Qos_<kind>_dflt); the DomainParticipantFactory's default participant QoS is not (shared by the process).",
     "explicit TLA+ spec + TLC; every transition replayed through the public API in a two-participant deterministic simulation"),
    ("C36", "model_checking",
     "Entities.tla gives the DDS return code of every create / delete / get_qos / delete_contained_entities / delete_participant call as a function of the entity tree (children present, topic in use, already deleted, wrong parent); TLC enumerates all histories of <= 6 operations (2 publishers, 1 subscriber, 2 topics with 2 names, 2 writers, 1 reader; 1 559 states, 7 247 transitions) and every transition is replayed through the async API in the simulation and compared: the return code and, after every call, which entities still exist (every entity ever created is asked: get_qos answers or AlreadyDeleted), so that a refused operation is seen to change nothing.",
     "5.8, 6 C36", GRAPH_NOTE + " Content filtered topics are in the model (create / delete / topic still related / delete_contained_entities); set_listener on deleted entities and readers on content filtered topics are not.",
     "explicit TLA+ spec + TLC; every transition replayed through the public API in the deterministic simulation"),
    ("C38", "model_checking",
     "FragSize.tla: set_fragment_size accepts exactly 8..=65000 and keeps the previous value on error; TLC enumerates all sequences of 3 calls over the value classes {0,7,8,9,1344,64999,65000,65001,65535,65536,65543,65544,70000,2^17+1344,2^32+500,usize::MAX} (incl. values whose low 16 bits are in range) and every transition is replayed on the real RtpsUdpTransportParticipantFactory.",
     "6 C38", "Trusted: TLC; value classes instead of all usize values.",
     "explicit TLA+ spec + TLC; every transition replayed on the real object"),
    ("C34", "model_checking",
     "Channels.tla models the oneshot, mpsc and notification channels with one action per critical section of the code (send, clone, drop of a sender, poll with a waker id); TLC checks ExactlyOnceFifo and NoLostWakeup for all interleavings (<= 2 senders, 3 sends, 4 polls, 2 wakers) and every transition is replayed on the real channels with counting wakers: poll results, received values and wake-up counts are compared after every step.",
     "5.7, 6 C34", GRAPH_NOTE + " Linearizability of poll against a concurrent send / drop of the last sender is tested with a real second thread released at the waker clone inside poll (PollRacing: either order is accepted, a Pending without wake-up while the value is queued is not), and the converse with a second thread that polls the receiver the moment the sender calls wake() (SendWokenRuns: the woken task runs at once and must find the value). ChannelsA.tla: Apalache proves NoLostWakeup /\\ Fifo inductive for the mpsc design (unbounded numbers of operations); the split-poll variant must fail (thorough).",
     "explicit TLA+ spec + TLC exhaustive; every transition replayed on the real channels"),
    ("C15", "model_checking",
     "Compat.tla states the DDS request/offered table and the partition matching rule as operators; TLC enumerates every pair of policy groups over all their abstract values (15 050 QoS records) and 693 partition-list pairs with the specification's verdict; both compatibility functions of the code are evaluated on every record (exhaustive) and sampled records / partition pairs are created as real writer/reader pairs in the deterministic simulation, where both sides must reach the specification's verdict.",
     "5.4, 6 C15",
     "Trusted: TLC, the abstract-to-concrete QoS mapping in harness/src/compat.rs, cfg(dust_dds_verif) wrappers around the two private compatibility functions. The incompatible-QoS statuses are observed through listener callbacks (the status getters of the public API are todo!() in dust-dds): an incompatible pair must be reported once on each side with total_count 1 and exactly the policies Compat.tla's Incompatible(q) names, a compatible pair not at all. Pattern-against-pattern partitions are not judged.",
     "explicit TLA+ oracle enumerated by TLC; exhaustive comparison with the implementation's functions + end-to-end replay in the simulation"),
]

CHECKS = [
    ("C18", "model_checking", rc_text("Decides KEEP_LAST replacement/never-reject-for-depth and KEEP_ALL retention."), "5.2, 6 C18"),
    ("C19", "model_checking", rc_text("Decides reader-side resource limits and rejection reasons."), "5.2, 6 C19"),
    ("C20", "model_checking", rc_text("Decides read/take selection by masks, max_samples, instance, READ marking/removal and SampleInfo ranks."), "5.2, 6 C20"),
    ("C21", "model_checking", rc_text("Decides per-instance source-timestamp order for all arrival orders of 3 timestamps."), "5.2, 6 C21"),
    ("C22", "model_checking", rc_text("Decides instance/view state and generation counts for all write/dispose/unregister/read interleavings of two writers, incl. the unregister of a writer with autodispose (NOT_ALIVE_DISPOSED + writer removed, cfg C22c)."), "5.2, 6 C22"),
    ("C23", "model_checking", rc_text("Decides read_next_instance/take_next_instance over three instances with masks."), "5.2, 6 C23"),
    ("C24", "model_checking", rc_text("Decides exclusive ownership with two strengths, unregister and unmatch of the owner. End to end, Trace_Ownership.tla keeps owner and time of the last accepted change per instance and decides for every write of two or three writers of different strength (one per participant) whether the EXCLUSIVE reader must present it: owner / stronger writer / owner deleted / owner silent for longer than the reader's deadline (released by the worker's deadline sweep) / owner unregistered; inside the detection windows (one worker period, one discovery message) either outcome is accepted by looking ahead in the trace. Families: deadline, two instances, unregister, delete, random mixes."), "5.2, 6 C24"),
    ("C25", "model_checking", rc_text("Decides the time-based filter for all orders of 5 timestamps with separation 2."), "5.2, 6 C25"),
]

TECH = "explicit TLA+ spec + TLC exhaustive model checking; every TLC transition replayed on the real object (spec->impl conformance)"

NOT_APPLICABLE = {
    "C07": "decoder totality over arbitrary byte strings is a property of pure functions on unstructured input (fuzzing territory); there is no state machine for a TLA+ specification to describe. The participant-level consequence (no datagram crashes, hangs or exhausts a running participant) is decided by C06 (DESIGN.md section 7)",
    "C09": "XCDR round trip of every value of every type is encode/decode fidelity of a data format; a TLA+ transcription would re-implement the codec rather than specify behaviour, and TLC cannot enumerate generated types/values at a useful scale (DESIGN.md section 7)",
    "C10": "needs an independent DDS-XTypes implementation as oracle (none is installed and nothing can be fetched); encode/decode conformance is outside what a state-machine specification decides (DESIGN.md section 7)",
    "C13": "round trip of the discovery parameter-list encoding is codec fidelity; the behavioural part - every accepted QoS is announced and a remote participant sees exactly that QoS - is decided by C37 through real discovery traffic in the simulation (DESIGN.md section 7)",
    "C39": "type assignability and decoding across evolved types quantify over generated pairs of types and values of the XCDR codec; not a state-machine property (DESIGN.md section 7)",
    "C40": "derive-macro fidelity quantifies over Rust programs that must be generated and compiled; not expressible as a TLA+ state machine (DESIGN.md section 7)",
    "C41": "IDL compiler output quantifies over generated programs compiled by rustc; not expressible as a TLA+ state machine (DESIGN.md section 7)",
}

PENDING_REASON = "specification module for this property not yet bound to the implementation in this revision of /verif (planned in DESIGN.md section 10); not claimed until its check exists"


def main():
    props = [json.loads(l)["id"] for l in open(os.path.join(VERIF, "properties.jsonl"))]
    checks = []
    claimed = set()
    for (pid, level, text, ref), note, tech in [(c, SIM_NOTE, TECH_SIM) for c in SIM_CHECKS] + [(c, RC_NOTE, TECH) for c in CHECKS] + [(c[:4], c[4], c[5]) for c in OTHER_CHECKS]:
        claimed.add(pid)
        checks.append({
            "property_id": pid,
            "quick_cmd": f"./check {pid} --tier quick",
            "thorough_cmd": f"./check {pid} --tier thorough",
            "evidence_file": f"/verif/evidence/{pid}.json",
            "replay_cmd_template": f"./check {pid} --replay {{path}}",
            "engine": "tlc+vh",
            "level_claimed": {"category": level, "text": text, "design_ref": ref},
            "level_note": note,
            "technique": tech,
        })
    # the registry of checks must implement exactly the claimed properties
    sys.path.insert(0, os.path.dirname(os.path.abspath(__file__)))
    import registry
    if set(registry.PROPS.keys()) != claimed:
        raise SystemExit(f"registry / manifest mismatch: only in registry {set(registry.PROPS) - claimed}, only claimed {claimed - set(registry.PROPS)}")
    na = []
    for p in props:
        if p in claimed:
            continue
        na.append({"property_id": p, "reason": NOT_APPLICABLE.get(p, PENDING_REASON)})
    try:
        hooks = subprocess.run(["git", "-C", "/repo", "log", "--format=%h %s", "--grep=^verif hook"],
                               capture_output=True, text=True).stdout.strip().splitlines()
    except Exception:
        hooks = []
    man = {
        "version": 1,
        "setup_cmd": "cd /verif/harness && cargo build --release --offline && cd /verif/specs && for f in *.tla; do tla-sany $f > /dev/null || exit 1; done",
        "hooks": {
            "guard": "dust_dds_verif",
            "enable": "rustc --cfg dust_dds_verif, set for the harness build by /verif/harness/.cargo/config.toml (rustflags); /repo itself is never built with it by the test suite",
            "baseline_off_cmd": "cd /repo && cargo nextest run --workspace --no-fail-fast --test-threads 8 --offline || cargo test --workspace --no-fail-fast --offline",
            "source_commits": [h.split()[0] for h in hooks],
            "add_only": True,
        },
        "engines": [
            {"name": "tlc", "path": "/verif/specs", "serves_properties": sorted(claimed),
             "kind_free_text": "TLA+ specifications and TLC model-checking configurations (MC_*.cfg)"},
            {"name": "vh", "path": "/verif/harness", "serves_properties": sorted(claimed),
             "kind_free_text": "Rust conformance harness: replays TLC transitions on the real objects, runs the deterministic simulation, records traces"},
        ],
        "checks": checks,
        "not_applicable": na,
        "notes": "See DESIGN.md. ./check <ID> builds the harness against /repo's working tree (hooks on), runs TLC, binds to the code, writes evidence/<ID>.json.",
    }
    with open(os.path.join(VERIF, "MANIFEST.json"), "w") as f:
        json.dump(man, f, indent=1)
    print(f"claimed {len(checks)}, not claimed {len(na)}")


if __name__ == "__main__":
    main()
