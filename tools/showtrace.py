#!/usr/bin/env python3
"""showtrace.py <replay.json> [from_ms] [to_ms] [--meta]: rerun the scenario of a replay artefact and print a compact trace"""
import json, subprocess, os, sys
rep = json.load(open(sys.argv[1]))
sc = rep.get('scenario', rep)
a = int(sys.argv[2]) if len(sys.argv) > 2 and sys.argv[2].isdigit() else 0
b = int(sys.argv[3]) if len(sys.argv) > 3 and sys.argv[3].isdigit() else 10**9
if '--meta' in sys.argv: sc['log_meta'] = True
print('rule:', rep.get('rule'), 'line', rep.get('line_in_scenario'))
print('steps:', [(s['do'], {k: v for k, v in s.items() if k not in ('do',)}) for s in sc['steps']])
os.makedirs('/verif/work', exist_ok=True)
open('/verif/work/_r.ndjson', 'w').write(json.dumps(sc) + "\n")
if os.path.exists('/verif/work/_r.trace'): os.remove('/verif/work/_r.trace')
print(subprocess.run(['/verif/harness/target/release/vh', 'sim', '--scenarios', '/verif/work/_r.ndjson', '--out', '/verif/work/_r.trace'], capture_output=True, text=True).stdout.strip())
n = 0
for l in open('/verif/work/_r.trace'):
    e = json.loads(l)
    if e['ev'] == 'Sleep': continue
    n += 1
    t = e['t'] / 1e6
    if t < a or t > b: continue
    if e['ev'] == 'Send':
        subs = []
        for s in e['subs']:
            if s['k'] in ('INFO_DST', 'INFO_TS'): continue
            d = {k: v for k, v in s.items() if k in ('sn', 'f', 'base', 'set', 'first', 'last', 'start', 'st', 'c') and v not in (None, [])}
            subs.append(s['k'] + str(d))
        print(f"{n:4} {t:9.3f} Send#{e['id']} {e['from']}->{e['to']}{' meta' if e.get('meta') else ''} {' '.join(subs)}")
    elif e['ev'] in ('Deliver', 'Drop', 'Dup', 'Delay'):
        print(f"{n:4} {t:9.3f} {e['ev']}#{e['id']} {e.get('why','')}")
    else:
        print(f"{n:4} {t:9.3f} {json.dumps({k: v for k, v in e.items() if k not in ('t', 'qos')})[:260]}")
