#!/bin/bash
# Runs the dust_dds part of the repository's baseline suite (guard off) in /repo and compares with BASELINE.json stable_pass
cd /repo && cargo test -p dust_dds --offline --no-fail-fast -j 6 > /tmp/repo_suite.log 2>&1
python3 - <<'PY'
import re,json
base=json.load(open('/root/.vp/BASELINE.json'))
stable=set(x for x in base['stable_pass'] if x.startswith('dust_dds::'))
res={}; binname=None
for l in open('/tmp/repo_suite.log',errors='replace'):
    m=re.match(r'\s+Running (unittests )?(\S+)',l)
    if m:
        binname = '' if m.group(1) else re.sub(r'\.rs$','',m.group(2).split('/')[-1]); continue
    if 'Doc-tests' in l: binname='__doc__'
    m=re.match(r'test (\S+) \.\.\. (\w+)',l)
    if m and binname is not None and binname!='__doc__':
        res['dust_dds::'+(binname+'::' if binname else '')+m.group(1)]=m.group(2)
bad=sorted(n for n in stable if res.get(n)!='ok')
print(json.dumps({'stable_total':len(stable),'stable_not_ok':bad,'all_failed':sorted(n for n,v in res.items() if v=='FAILED')},indent=1))
PY
