#!/bin/bash
# confirm_seed.sh <worktree> : demo fails with the patch, passes without; existing suite (stable baseline) passes with it
WT=$1
cd $WT || exit 2
mkdir -p _confirm
export CARGO_TARGET_DIR=$WT/target
git apply --check -R _seed/patch.diff 2>/dev/null || git apply _seed/patch.diff || { echo "patch does not apply" > _confirm/result.txt; exit 2; }
cp _seed/seed_demo.rs dds/tests/seed_demo.rs
cargo test -p dust_dds --offline -j 6 --test seed_demo -- --test-threads=1 > _confirm/demo_with.log 2>&1; W=$?
git apply -R _seed/patch.diff
cargo test -p dust_dds --offline -j 6 --test seed_demo -- --test-threads=1 > _confirm/demo_without.log 2>&1; WO=$?
git apply _seed/patch.diff
rm -f dds/tests/seed_demo.rs
cargo test -p dust_dds --offline -j 6 --no-fail-fast > _confirm/suite_with.log 2>&1
python3 - "$WT" $W $WO <<'PY'
import sys,re,json
wt,w,wo=sys.argv[1],int(sys.argv[2]),int(sys.argv[3])
base=json.load(open('/root/.vp/BASELINE.json'))
stable=set(x for x in base['stable_pass'] if x.startswith('dust_dds::'))
res={}
binname=None
for l in open(wt+'/_confirm/suite_with.log',errors='replace'):
    m=re.match(r'\s+Running (unittests )?(\S+)',l)
    if m:
        p=m.group(2)
        binname = None if m.group(1) else re.sub(r'\.rs$','',p.split('/')[-1])
        if m.group(1): binname=''
        continue
    if 'Doc-tests' in l: binname='__doc__'
    m=re.match(r'test (\S+) \.\.\. (\w+)',l)
    if m and binname is not None and binname!='__doc__':
        name='dust_dds::'+(binname+'::' if binname else '')+m.group(1)
        res[name]=m.group(2)
failed_stable=[n for n in stable if res.get(n) not in ('ok',)]
missing=[n for n in stable if n not in res]
# load-induced timeouts: run each not-ok stable test again on its own (patch still applied) before counting it
import subprocess
still=[]
for nme in sorted(failed_stable):
    parts=nme.split('::')
    if len(parts)<3: still.append(nme); continue
    binn,test=parts[1],'::'.join(parts[2:])
    r=subprocess.run(['cargo','test','-p','dust_dds','--offline','--test',binn,'--',test,'--exact'],cwd=wt,capture_output=True,text=True)
    if r.returncode!=0 and 'no test target named' in r.stderr:
        r=subprocess.run(['cargo','test','-p','dust_dds','--offline','--lib','--','::'.join(parts[1:]),'--exact'],cwd=wt,capture_output=True,text=True)
    if r.returncode!=0: still.append(nme)
retried=sorted(failed_stable); failed_stable=still
out={'retried_alone':retried,'demo_with_patch_rc':w,'demo_without_patch_rc':wo,'stable_total':len(stable),'stable_not_ok':sorted(failed_stable),'stable_missing':len(missing),'all_failed':sorted(n for n,v in res.items() if v=='FAILED')}
json.dump(out,open(wt+'/_confirm/result.json','w'),indent=1)
print(json.dumps(out)[:1500])
PY
