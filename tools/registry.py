"""Property registry: which machinery decides which property."""
import json
import os
import re

import vlib
from vlib import ToolError, log
import simcheck
import scenarios


# ------------------------------------------------------------------------------------------
# Binding A: TLC state graph -> every transition replayed on the real object
# ------------------------------------------------------------------------------------------

def norm_field(detail):
    head = detail.split(":", 1)[0]
    head = re.sub(r"\[\d+\]", "", head)
    head = re.sub(r"\(instance \d+\)", "", head)
    return head


def graph_run(prop, tier, seed, module, mc_module, cfgs, required_tags, level_note, workers=None):
    wd = vlib.workdir(prop)
    known = vlib.load_known()
    total_states = total_edges = total_replayed = total_masked = total_ops = 0
    tag_counts = {}
    samples = []
    violations = []
    known_hits = {}
    tlc_cmds = []
    cfg_summ = []
    for cfg in cfgs[tier]:
        w = workers or (4 if tier == "quick" else 8)
        r = vlib.run_tlc(mc_module, cfg, wd, workers=w, timeout=(600 if tier == "quick" else 3000))
        graph = os.path.join(wd, cfg.replace(".cfg", "") + ".graph.ndjson")
        nstates, nedges = vlib.build_graph(r["edges_raw"], graph)
        os.remove(r["edges_raw"])
        consts = vlib.parse_cfg(os.path.join(vlib.SPECS, cfg))
        cfgjson = os.path.join(wd, cfg.replace(".cfg", "") + ".cfg.json")
        json.dump(consts, open(cfgjson, "w"))
        rep_path = os.path.join(wd, cfg.replace(".cfg", "") + ".report.json")
        vlib.run_vh(["replay", module, "--cfg", cfgjson, "--edges", graph, "--out", rep_path, "--maxdiv", "2"])
        rep = json.load(open(rep_path))
        total_states += r["stats"]["distinct"]
        total_edges += nedges
        total_replayed += rep["edges_replayed"]
        total_masked += rep["edges_masked"]
        total_ops += rep["ops_executed"]
        tlc_cmds.append(r["stats"]["cmd"])
        cfg_summ.append({"cfg": cfg, "distinct_states": r["stats"]["distinct"], "transitions": nedges,
                         "replayed": rep["edges_replayed"], "masked": rep["edges_masked"],
                         "tlc_wall_s": r["stats"]["wall_s"], "action_coverage": r["stats"]["coverage"],
                         "divergent_edges_by_tag": rep["divergent_edges_by_tag"]})
        for t, c in rep["tag_counts"].items():
            tag_counts[t] = tag_counts.get(t, 0) + c
        # a few sample behaviours (first, middle, last edge with their paths are not kept: show ops)
        with open(graph) as f:
            lines = f.readlines()
        for idx in (1, len(lines) // 2, len(lines) - 1):
            if 0 < idx < len(lines) and len(samples) < 6:
                e = json.loads(lines[idx])
                samples.append({"cfg": cfg, "op": e["o"], "expected_state_after": e["ds"]})
        for d in rep["divergences"]:
            sig = f"{module}:{d['tag']}:{d['kind']}:{norm_field(d['detail'])}"
            kf = next((k for k in known["findings"] if sig.startswith(k["signature"])), None)
            if kf:
                known_hits.setdefault(sig, {"sig": sig, "what": f"{kf['what']} [{sig}] (finding of {kf['property']})",
                                            "count": 0})
                known_hits[sig]["count"] += rep["divergent_edges_by_tag"].get(d["tag"], 1)
                continue
            if any(v["sig"] == sig for v in violations):
                continue
            name = re.sub(r"[^A-Za-z0-9_.-]", "_", f"{cfg.replace('.cfg','')}__{sig}")[:150]
            path = vlib.save_replay(prop, name, {
                "property": prop, "module": module, "cfg_file": cfg, "cfg": consts, "signature": sig,
                "kind": d["kind"], "detail": d["detail"], "ops": d["ops"], "got": d["got"],
                "expected_state": d["expected_state"], "got_state": d["got_state"],
                "rerun": f"./check {prop} --replay <this file>"})
            violations.append({"sig": sig, "what": f"{sig}: {d['detail']}", "replay": path})
    missing = [t for t in required_tags if tag_counts.get(t, 0) == 0]
    if missing:
        raise ToolError(f"vacuity guard: the model never exercised {missing} (tags seen: {sorted(tag_counts)})")
    coverage = {
        "states": total_states,
        "transitions": total_edges,
        "traces_validated_against_impl": total_replayed,
        "transitions_masked_by_divergence": total_masked,
        "impl_operations_executed": total_ops,
        "exhaustive": total_masked == 0,
        "distinct_nontrivial": sum(c for t, c in tag_counts.items() if t in required_tags),
        "evaluations": total_replayed,
        "rule": "every transition of the bounded TLC model is one case; non-trivial = transitions whose "
                "spec tag is one of " + ", ".join(required_tags),
        "spec_tags_exercised": tag_counts,
        "per_config": cfg_summ,
        "checker_cmd": tlc_cmds[0] if tlc_cmds else "",
        "samples": samples,
    }
    return {"level": "model_checking", "coverage": coverage, "violations": violations,
            "known": list(known_hits.values()),
            "assumptions": [level_note,
                            "TLC (explicit-state) and the CommunityModules Json module are trusted",
                            "the harness' mapping abstract value -> concrete handle/guid/timestamp is table driven (harness/src/*.rs)"]}


def graph_replay(prop, path, module):
    rep = json.load(open(path))
    wd = vlib.workdir(prop + ".replay")
    cfgjson = os.path.join(wd, "cfg.json")
    json.dump(rep["cfg"], open(cfgjson, "w"))
    opsf = os.path.join(wd, "ops.json")
    json.dump(rep["ops"], open(opsf, "w"))
    outp = os.path.join(wd, "out.json")
    vlib.run_vh(["replayops", module, "--cfg", cfgjson, "--ops", opsf, "--out", outp])
    r = json.load(open(outp))
    print(json.dumps(r)[:2000])
    if r.get("diverged"):
        print(f"VIOLATION property={prop} replay={path}")
        return 1
    return 0


def rc(prop, cfgs, tags, note="reader cache driven through the cfg(dust_dds_verif) re-export of UserDefinedDataReader"):
    return {
        "run": lambda p, tier, seed: graph_run(p, tier, seed, "ReaderCache", "MC_ReaderCache", cfgs, tags, note),
        "replay": lambda p, path: graph_replay(p, path, "ReaderCache"),
    }


RTPS_NOTE = ("the real participants run in the deterministic simulation (public runtime/transport traits, no hooks); "
             "Trace_Rtps.tla judges every recorded step; bounded liveness = heal + 3 s quiescence")


def simprop(gen, owns, required, spec="Trace_Rtps", keep_sleep=False):
    return {
        "run": lambda p, tier, seed: simcheck.sim_check(p, tier, seed, gen(tier, seed), spec,
                                                        lambda rule: any(rule.startswith(o + ":") for o in owns),
                                                        required, RTPS_NOTE, keep_sleep=keep_sleep),
        "replay": lambda p, path: simcheck.sim_replay(p, path, spec, keep_sleep=keep_sleep),
    }


def C(*names):
    return [f"MC_ReaderCache_{n}.cfg" for n in names]


PROPS = {
    "C01": simprop(scenarios.c01, ["C01", "C06"], {"data": 50, "acknack": 20, "take": 20, "final": 20, "faults": 10}),
    "C02": simprop(scenarios.c02, ["C01", "C02", "C06"], {"data": 50, "take": 20, "faults": 10}),
    "C05": simprop(scenarios.c05, ["C01", "C05", "C06"], {"frag": 100, "take": 20, "final": 20, "faults": 5}),
    "C03": simprop(scenarios.c03, ["C01", "C03", "C06"], {"waitacks": 30, "data": 50, "faults": 10}),
    "C04": simprop(scenarios.c04, ["C01", "C04", "C06"], {"waithist": 10, "data": 50, "gap": 5, "final": 30}),
    "C27": simprop(scenarios.c27, ["C01", "C27", "C31", "C06"], {"blockedwrite": 20, "data": 50}),
    "C29": simprop(scenarios.c29, ["C01", "C29", "C06"], {"data": 30, "final": 30}),
    "C18": rc("C18", {"quick": C("C18", "C18b", "C18c", "C18d"), "thorough": C("C18", "C18b", "C18c", "C18d")},
              ["history:keep-last-replaces-oldest"]),
    "C19": rc("C19", {"quick": C("C19", "C19b", "C19c"), "thorough": C("C19", "C19b", "C19c")}, ["limits:rejected"]),
    "C20": rc("C20", {"quick": C("C20"), "thorough": C("C20")}, ["access", "access:specific-instance", "access:unknown-instance"]),
    "C21": rc("C21", {"quick": C("C21", "C21b", "C21c"), "thorough": C("C21", "C21b", "C21c")}, ["order:inserted-before-later-timestamp"]),
    "C22": rc("C22", {"quick": C("C22", "C22b"), "thorough": C("C22", "C22b")},
              ["state:rebirth", "state:unregister-while-other-writers-remain"]),
    "C23": rc("C23", {"quick": C("C23"), "thorough": C("C23")},
              ["nextinstance", "nextinstance:skips-instance-without-matching-samples", "nextinstance:none"]),
    "C24": rc("C24", {"quick": C("C24", "C24b"), "thorough": C("C24", "C24b")},
              ["ownership:weaker-writer-ignored", "ownership:stronger-writer-takes-over",
               "ownership:owner-no-longer-matched"]),
    "C25": rc("C25", {"quick": C("C25", "C25b"), "thorough": C("C25", "C25b")},
              ["timefilter:closer-than-minimum-separation"]),
}
