"""Property registry: which machinery decides which property."""
import json
import os
import re

import vlib
from vlib import ToolError, log
import simcheck
import scenarios
import tracenorm


# ------------------------------------------------------------------------------------------
# Binding A: TLC state graph -> every transition replayed on the real object
# ------------------------------------------------------------------------------------------

def norm_field(detail):
    head = detail.split(":", 1)[0]
    head = re.sub(r"\[\d+\]", "", head)
    head = re.sub(r"\(instance \d+\)", "", head)
    return head


def graph_run(prop, tier, seed, module, mc_module, cfgs, required_tags, level_note, workers=None):
    wd = vlib.workdir(prop)
    known = vlib.load_known()
    total_states = total_edges = total_replayed = total_masked = total_ops = 0
    tag_counts = {}
    samples = []
    violations = []
    known_hits = {}
    tlc_cmds = []
    cfg_summ = []
    for cfg in cfgs[tier]:
        w = workers or (4 if tier == "quick" else 8)
        if cfg.endswith("_walk.cfg"):
            # a larger model than TLC can enumerate: random behaviours (TLC simulation mode); the transitions seen form a graph
            # connected to the initial state, which is replayed like the exhaustive ones
            num, depth = (150, 14) if tier == "quick" else (1500, 16)
            if "MC_Qos_" in cfg or "MC_WriterInst_" in cfg:
                # every replayed transition runs real participants with discovery in the simulation: fewer behaviours
                num, depth = (150, 14) if tier == "quick" else (400, 14)
            if "C20_walk" in cfg or "C23_walk" in cfg:
                # every state of these models has some hundred access successors (masks x max_samples x instance): fewer behaviours
                num, depth = (60, 12) if tier == "quick" else (300, 14)
            r = vlib.run_tlc(mc_module, cfg, wd, workers=1, timeout=(600 if tier == "quick" else 3000), simulate=f"num={num}",
                             extra=("-depth", str(depth), "-seed", str(1000 + seed)))
        else:
            r = vlib.run_tlc(mc_module, cfg, wd, workers=w, timeout=(600 if tier == "quick" else 3000))
        graph = os.path.join(wd, cfg.replace(".cfg", "") + ".graph.ndjson")
        nstates, nedges = vlib.build_graph(r["edges_raw"], graph)
        os.remove(r["edges_raw"])
        consts = vlib.parse_cfg(os.path.join(vlib.SPECS, cfg))
        cfgjson = os.path.join(wd, cfg.replace(".cfg", "") + ".cfg.json")
        json.dump(consts, open(cfgjson, "w"))
        rep_path = os.path.join(wd, cfg.replace(".cfg", "") + ".report.json")
        # representative paths: the quick tier uses one order of the outgoing edges (derived from the seed), the thorough tier
        # three; the reports are merged (edge counts of the first, divergences of all)
        rep = None
        for sh in ([seed] if tier == "quick" else [0, seed, seed + 1]):
            os.environ["VH_SHUFFLE"] = str(sh)
            # besides the transition-by-transition replay: random walks through the graph executed as whole behaviours on one object
            os.environ["VH_WALKS"] = os.environ.get("VERIF_WALKS", "200" if tier == "quick" else "1000")
            try:
                vlib.run_vh(["replay", module, "--cfg", cfgjson, "--edges", graph, "--out", rep_path, "--maxdiv", "2"],
                            timeout=(3600 if tier == "quick" else 14400))
            finally:
                os.environ.pop("VH_SHUFFLE", None)
                os.environ.pop("VH_WALKS", None)
            r1 = json.load(open(rep_path))
            if rep is None:
                rep = r1
            else:
                rep["ops_executed"] += r1["ops_executed"]
                rep["walks"] = rep.get("walks", 0) + r1.get("walks", 0)
                rep["walk_steps"] = rep.get("walk_steps", 0) + r1.get("walk_steps", 0)
                rep["edges_masked"] = max(rep["edges_masked"], r1["edges_masked"])
                rep["divergences"] += r1["divergences"]
                for t, c in r1["divergent_edges_by_tag"].items():
                    rep["divergent_edges_by_tag"][t] = max(rep["divergent_edges_by_tag"].get(t, 0), c)
        total_states += r["stats"]["distinct"]
        total_edges += nedges
        total_replayed += rep["edges_replayed"]
        total_masked += rep["edges_masked"]
        total_ops += rep["ops_executed"]
        tlc_cmds.append(r["stats"]["cmd"])
        cfg_summ.append({"cfg": cfg, "distinct_states": r["stats"]["distinct"], "transitions": nedges,
                         "replayed": rep["edges_replayed"], "masked": rep["edges_masked"],
                         "random_walks": rep.get("walks", 0), "random_walk_steps": rep.get("walk_steps", 0),
                         "tlc_wall_s": r["stats"]["wall_s"], "action_coverage": r["stats"]["coverage"],
                         "divergent_edges_by_tag": rep["divergent_edges_by_tag"]})
        for t, c in rep["tag_counts"].items():
            tag_counts[t] = tag_counts.get(t, 0) + c
        # a few sample behaviours (first, middle, last edge with their paths are not kept: show ops)
        with open(graph) as f:
            lines = f.readlines()
        for idx in (1, len(lines) // 2, len(lines) - 1):
            if 0 < idx < len(lines) and len(samples) < 6:
                e = json.loads(lines[idx])
                samples.append({"cfg": cfg, "op": e["o"], "expected_state_after": e["ds"]})
        for d in rep["divergences"]:
            sig = f"{module}:{d['tag']}:{d['kind']}:{norm_field(d['detail'])}"
            kf = next((k for k in known["findings"] if sig.startswith(k["signature"])), None)
            if kf:
                known_hits.setdefault(sig, {"sig": sig, "what": f"{kf['what']} [{sig}] (finding of {kf['property']})",
                                            "count": 0})
                known_hits[sig]["count"] += rep["divergent_edges_by_tag"].get(d["tag"], 1)
                continue
            if any(v["sig"] == sig for v in violations):
                continue
            name = re.sub(r"[^A-Za-z0-9_.-]", "_", f"{cfg.replace('.cfg','')}__{sig}")[:150]
            path = vlib.save_replay(prop, name, {
                "property": prop, "module": module, "cfg_file": cfg, "cfg": consts, "signature": sig,
                "kind": d["kind"], "detail": d["detail"], "ops": d["ops"], "got": d["got"],
                "expected_state": d["expected_state"], "got_state": d["got_state"],
                "rerun": f"./check {prop} --replay <this file>"})
            violations.append({"sig": sig, "what": f"{sig}: {d['detail']}", "replay": path})
    missing = [t for t in required_tags if tag_counts.get(t, 0) == 0]
    if missing and not violations:
        raise ToolError(f"vacuity guard: the model never exercised {missing} (tags seen: {sorted(tag_counts)})")
    coverage = {
        "states": total_states,
        "transitions": total_edges,
        "traces_validated_against_impl": total_replayed,
        "transitions_masked_by_divergence": total_masked,
        "impl_operations_executed": total_ops,
        "exhaustive": total_masked == 0,
        "distinct_nontrivial": sum(c for t, c in tag_counts.items() if t in required_tags),
        "evaluations": total_replayed,
        "rule": "every transition of the bounded TLC model is one case; non-trivial = transitions whose "
                "spec tag is one of " + ", ".join(required_tags),
        "spec_tags_exercised": tag_counts,
        "per_config": cfg_summ,
        "checker_cmd": tlc_cmds[0] if tlc_cmds else "",
        "samples": samples,
    }
    return {"level": "model_checking", "coverage": coverage, "violations": violations,
            "known": list(known_hits.values()),
            "assumptions": [level_note,
                            "TLC (explicit-state) and the CommunityModules Json module are trusted",
                            "the harness' mapping abstract value -> concrete handle/guid/timestamp is table driven (harness/src/*.rs)"]}


def graph_replay(prop, path, module):
    rep = json.load(open(path))
    wd = vlib.workdir(prop + ".replay")
    cfgjson = os.path.join(wd, "cfg.json")
    json.dump(rep["cfg"], open(cfgjson, "w"))
    opsf = os.path.join(wd, "ops.json")
    json.dump(rep["ops"], open(opsf, "w"))
    outp = os.path.join(wd, "out.json")
    vlib.run_vh(["replayops", module, "--cfg", cfgjson, "--ops", opsf, "--out", outp])
    r = json.load(open(outp))
    print(json.dumps(r)[:2000])
    if r.get("diverged"):
        print(f"VIOLATION property={prop} replay={path}")
        return 1
    return 0


def rc(prop, cfgs, tags, note="reader cache driven through the cfg(dust_dds_verif) re-export of UserDefinedDataReader"):
    return {
        "run": lambda p, tier, seed: graph_run(p, tier, seed, "ReaderCache", "MC_ReaderCache", cfgs, tags, note),
        "replay": lambda p, path: graph_replay(p, path, "ReaderCache"),
    }


RTPS_NOTE = ("the real participants run in the deterministic simulation (public runtime/transport traits, no hooks); "
             "Trace_Rtps.tla judges every recorded step; bounded liveness = heal + 3 s quiescence")


RTPS_MC = {"quick": [("MC_Rtps", "MC_Rtps_quick.cfg")],
           "thorough": [("MC_Rtps", "MC_Rtps_safety.cfg"), ("MC_Rtps", "MC_Rtps_safetyfrag.cfg"),
                        ("MC_Rtps", "MC_Rtps_live.cfg")],
           # self test: the GAP handling of the pinned commit must violate NoSkipHeld in the model
           "must_fail": [("MC_Rtps", "MC_Rtps_jump.cfg")]}


def simprop(gen, owns, required, spec="Trace_Rtps", keep_sleep=False, mc=RTPS_MC, norm=None):
    return {
        "run": lambda p, tier, seed: simcheck.sim_check(p, tier, seed, gen(tier, seed), spec,
                                                        lambda rule: any(rule.startswith(o + ":") for o in owns),
                                                        required, RTPS_NOTE, keep_sleep=keep_sleep, mc=mc, norm=norm),
        "replay": lambda p, path: simcheck.sim_replay(p, path, spec, keep_sleep=keep_sleep, norm=norm),
    }


def graphprop(module, mc, cfgs, tags, note):
    cf = {"quick": cfgs, "thorough": cfgs}
    return {
        "run": lambda p, tier, seed: graph_run(p, tier, seed, module, mc, cf, tags, note),
        "replay": lambda p, path: graph_replay(p, path, module),
    }


def combine(*handlers):
    """several machineries for one property: run all, merge verdicts; coverage of the first, the others nested"""
    def run(p, tier, seed):
        results = [h["run"](p, tier, seed) for h in handlers]
        out = results[0]
        for k, r in enumerate(results[1:], start=2):
            out["violations"] += r["violations"]
            out["known"] += r["known"]
            out["assumptions"] += [a for a in r["assumptions"] if a not in out["assumptions"]]
            cov = r["coverage"]
            out["coverage"][f"part{k}"] = {x: cov[x] for x in cov if x != "samples"}
            out["coverage"]["states"] = out["coverage"].get("states", 0) + cov.get("states", 0)
            out["coverage"]["transitions"] = out["coverage"].get("transitions", 0) + cov.get("transitions", 0)
            out["coverage"]["traces_validated_against_impl"] = out["coverage"].get("traces_validated_against_impl", 0) + cov.get("traces_validated_against_impl", 0)
            out["coverage"]["samples"] = out["coverage"].get("samples", []) + cov.get("samples", [])[:2]
        return out

    def replay(p, path):
        rep = json.load(open(path))
        if "scenario" in rep:
            return handlers[1]["replay"](p, path)
        return handlers[0]["replay"](p, path)
    return {"run": run, "replay": replay}


def C(*names):
    return [f"MC_ReaderCache_{n}.cfg" for n in names]


PROPS = {
    "C01": None,  # defined below (simprop + binding self test in the thorough tier)
    "C02": simprop(scenarios.c02, ["C01", "C02", "C06"], {"data": 50, "take": 20, "faults": 10}),
    "C05": simprop(scenarios.c05, ["C01", "C05", "C06"], {"frag": 100, "take": 20, "final": 20, "faults": 5}),
    "C03": simprop(scenarios.c03, ["C01", "C03", "C06"], {"waitacks": 30, "data": 50, "faults": 10}),
    "C04": combine(simprop(scenarios.c04, ["C01", "C04", "C06"], {"waithist": 10, "data": 50, "gap": 5, "final": 30}),
                   # a reader matched with several TRANSIENT_LOCAL writers: wait_for_historical_data needs the history of all of them
                   simprop(scenarios.c04multi, ["C04"], {"scenarios": 6, "waitok": 6, "waittimeout": 3, "takes": 12},
                           spec="Trace_Hist", mc=None, norm=tracenorm.normalise_hist)),
    "C27": combine(simprop(scenarios.c27, ["C01", "C27", "C31", "C06"], {"blockedwrite": 20, "data": 50}),
                   # which changes count as acknowledged (what a KEEP_LAST write may replace): the stateful writer driven directly,
                   # including ACKNACKs addressed to a sibling writer of the participant, from unknown / best-effort readers, stale counts
                   graphprop("WriterAcks", "WriterAcks", ["MC_WriterAcks.cfg"],
                             ["acknack:taken", "acknack:for-sibling-writer", "acknack:from-unmatched-reader", "acknack:from-best-effort-reader", "acknack:stale-count"],
                             "RtpsStatefulWriter driven through its public (doc-hidden) API with a null transport and a fixed clock")),
    "C29": simprop(scenarios.c29, ["C01", "C29", "C06"], {"data": 30, "final": 30}),
    "C16": simprop(scenarios.c16, ["C16", "C06"], {"pubstatus": 30, "substatus": 20, "unmatch": 10}, spec="Trace_Discovery",
                   mc=None, norm=tracenorm.normalise_discovery),
    "C17": simprop(scenarios.c17, ["C17", "C06"], {"discovered": 40, "removed": 3, "rediscovered": 2, "isolated": 5}, spec="Trace_Discovery",
                   mc=None, norm=tracenorm.normalise_discovery),
    "C30": simprop(scenarios.c30, ["C30"], {"listener": 20, "offered": 10, "offeredmiss": 5, "requestedmiss": 10, "final": 30},
                   spec="Trace_Worker", mc=None, norm=tracenorm.normalise_worker),
    "C31": simprop(scenarios.c31, ["C31"], {"sleep": 2000}, spec="Trace_Worker", mc=None, norm=tracenorm.normalise_worker, keep_sleep=True),
    "C28": graphprop("WriterInst", "WriterInst", ["MC_WriterInst.cfg", "MC_WriterInst_walk.cfg", "MC_WriterInst_limit.cfg"],
                     ["register:new", "register:idempotent", "register:not-enabled", "register:keyless", "unregister:unknown",
                      "unregister:registered", "unregister:keyless", "unregister:not-enabled", "dispose:unknown", "dispose:registered",
                      "dispose:keyless", "dispose:not-enabled", "write:implicit-registration", "write:not-enabled",
                      "lookup:registered", "lookup:unknown", "lookup:not-enabled", "enable"],
                     "DataWriterAsync on a keyed and a keyless type, created enabled or not enabled, driven inside the deterministic simulation"),
    "C37": graphprop("Qos", "MC_Qos", ["MC_Qos_%s.cfg" % k for k in ("writer", "reader", "topic", "publisher", "subscriber", "participant", "writer_walk", "reader_walk",
                                                            "writer_dflt", "reader_dflt", "topic_dflt", "publisher_dflt", "subscriber_dflt")],
                     ["create:accepted", "create:inconsistent", "set:inconsistent", "set:immutable", "set:accepted-mutable",
                      "set:accepted-immutable-before-enable", "set:inconsistent-and-immutable", "enable", "setdefault:immutable", "setdefault:accepted-mutable",
                      "setfactorydefault:accepted", "setfactorydefault:inconsistent", "create:changed-factory-default"],
                     "entity under test on one participant, announced QoS read from the built-in readers of a second participant, both inside the deterministic simulation"),
    "C26": simprop(scenarios.c26, ["C26"], {"scenarios": 30, "presented": 30, "withheld": 30, "finals": 30, "mixedfinal": 15}, spec="Trace_Filter", mc=None,
                   norm=tracenorm.normalise_filter),
    "C36": graphprop("Entities", "Entities", ["MC_Entities.cfg", "MC_Entities_walk.cfg"],
                     ["delete:not-empty", "delete:topic-in-use", "delete:already-deleted", "use:deleted-entity", "delete-contained",
                      "delete:wrong-parent", "create:parent-deleted", "delete:topic-related-to-content-filtered-topic"],
                     "entity tree driven through the public async API inside the deterministic simulation (no network traffic needed)"),
    "C35": graphprop("Entities", "Entities", ["MC_Entities_C35.cfg", "MC_Entities_C35w.cfg", "MC_Entities_C35r.cfg"], ["create", "delete"],
                     "entity tree driven through the async API after warming the 8-bit publisher/subscriber counters to 254"),
    "C38": graphprop("FragSize", "FragSize", ["MC_FragSize.cfg"], ["set:accepted", "set:rejected"],
                     "public RtpsUdpTransportParticipantFactory API"),
    "C32": combine(graphprop("StatusWait", "StatusWait", ["MC_StatusWait.cfg", "MC_StatusWait_walk.cfg"],
                             ["setenabled:releases-registered-waiter", "await:released", "await:waiting", "register"],
                             "DcpsStatusCondition driven through the cfg(dust_dds_verif) re-export with real notification channels"),
                   simprop(scenarios.c32, ["C32"], {"waits": 20, "waitwoken": 10}, spec="Trace_Worker", mc=None,
                           norm=tracenorm.normalise_worker)),
    # (C21b / C21c: KEEP_LAST under BY_SOURCE_TIMESTAMP, where the stored order differs from the reception order that decides the eviction)
    "C18": rc("C18", {"quick": C("C18", "C18b", "C18c", "C18d", "C21b", "C21c", "C18_walk"), "thorough": C("C18", "C18b", "C18c", "C18d", "C21b", "C21c", "C18_walk")},
              ["history:keep-last-replaces-oldest"]),
    "C19": rc("C19", {"quick": C("C19", "C19b", "C19c", "C19d", "C19e", "C19_walk"), "thorough": C("C19", "C19b", "C19c", "C19d", "C19e", "C19_walk")}, ["limits:rejected"]),
    "C20": rc("C20", {"quick": C("C20", "C20b", "C20_walk"), "thorough": C("C20", "C20b", "C20_walk")}, ["access", "access:specific-instance", "access:unknown-instance"]),
    "C21": rc("C21", {"quick": C("C21", "C21b", "C21c", "C21_walk"), "thorough": C("C21", "C21b", "C21c", "C21_walk")}, ["order:inserted-before-later-timestamp"]),
    "C22": rc("C22", {"quick": C("C22", "C22b", "C22c", "C22_walk"), "thorough": C("C22", "C22b", "C22c", "C22_walk")},
              ["state:rebirth", "state:unregister-while-other-writers-remain"]),
    "C23": rc("C23", {"quick": C("C23", "C23_walk"), "thorough": C("C23", "C23_walk")},
              ["nextinstance", "nextinstance:skips-instance-without-matching-samples", "nextinstance:none"]),
    "C24": combine(rc("C24", {"quick": C("C24", "C24b", "C24_walk"), "thorough": C("C24", "C24b", "C24_walk")},
                      ["ownership:weaker-writer-ignored", "ownership:stronger-writer-takes-over",
                       "ownership:owner-no-longer-matched"]),
                   # end to end (the deadline sweep of the worker releases the ownership, deletion of the owner travels by discovery)
                   simprop(scenarios.c24own, ["C24"], {"scenarios": 10, "accepted": 30, "ignored": 20, "takeovers": 5, "afterdeadline": 4,
                                                       "afterdelete": 2, "afterunregister": 2},
                           spec="Trace_Ownership", mc=None, norm=tracenorm.normalise_ownership)),
    "C25": rc("C25", {"quick": C("C25", "C25b", "C25c", "C25_walk"), "thorough": C("C25", "C25b", "C25c", "C25_walk")},
              ["timefilter:closer-than-minimum-separation"]),
}


# ------------------------------------------------------------------------------------------
# C15: Compat.tla as oracle (exhaustive on the pure functions) + end-to-end matching in the simulation
# ------------------------------------------------------------------------------------------
def _cases_from_tlc(module, cfg, wd):
    r = vlib.run_tlc(module, cfg, wd, workers=4, timeout=600, capture_edges=False)
    cases = []
    for l in open(r["out"], errors="replace"):
        if l.startswith('<<"CASE", "'):
            cases.append(json.loads(vlib.tla_unescape(l.rstrip("\n")[len('<<"CASE", "'):-3])))
    return r, cases



def _apalache(inv, wd, expect_ok=True, timeout=900, module="TimeConvA.tla", extra=("--length=0",)):
    """apalache-mc check <extra> --inv=<inv> <module> ; returns wall seconds"""
    import subprocess, time
    out = os.path.join(wd, "apalache_" + inv + ("_neg" if not expect_ok else "") + str(len(extra)))
    t0 = time.time()
    p = subprocess.run(["timeout", str(timeout), "apalache-mc", "check", f"--out-dir={out}"] + list(extra) + [f"--inv={inv}", module],
                       cwd=vlib.SPECS, stdout=subprocess.PIPE, stderr=subprocess.STDOUT, text=True)
    ok = "EXITCODE: OK" in p.stdout
    bad = "EXITCODE: ERROR (12)" in p.stdout
    if not ok and not bad:
        raise ToolError(f"apalache failed on {inv}: {p.stdout[-600:]}")
    if ok != expect_ok:
        raise ToolError(f"apalache: invariant {inv} of {module} {'holds' if ok else 'is violated'}, expected the opposite: "
                        "the specification itself is inconsistent")
    import shutil
    shutil.rmtree(out, ignore_errors=True)
    return round(time.time() - t0, 1)


def c14_run(prop, tier, seed):
    wd = vlib.workdir(prop)
    known = vlib.load_known()
    r1, cases = _cases_from_tlc("MC_TimeConv", "MC_TimeConv.cfg", wd)
    kinds = {}
    for c in cases:
        kinds[c["kind"]] = kinds.get(c["kind"], 0) + 1
    if kinds.get("conv", 0) < 5000 or kinds.get("add", 0) < 1000 or kinds.get("sub", 0) < 1000 or kinds.get("new", 0) < 50:
        raise ToolError(f"vacuity guard: too few TimeConv cases {kinds}")
    proofs = {"RoundTripInv": _apalache("RoundTripInv", wd), "ArithInv": _apalache("ArithInv", wd)}
    if tier == "thorough":
        proofs["RoundTripNearest(must fail)"] = _apalache("RoundTripNearest", wd, expect_ok=False)
    cf = os.path.join(wd, "timeconv.cases")
    with open(cf, "w") as f:
        for c in cases:
            f.write(json.dumps(c) + "\n")
    rep_path = os.path.join(wd, "timeconv.rep")
    vlib.run_vh(["timeconv", "--cases", cf, "--out", rep_path, "--exhaustive"])
    rep = json.load(open(rep_path))
    violations, known_hits = [], []
    for d in rep["distinct"]:
        sig = d["sig"]
        kf = next((k for k in known["findings"] if sig.startswith(k["signature"])), None)
        if kf:
            known_hits.append({"sig": sig, "what": f"{kf['what']} [{sig}]"})
            continue
        path = vlib.save_replay(prop, re.sub(r"[^A-Za-z0-9_.-]", "_", sig)[:140], {"property": prop, "signature": sig, "case": d["case"]})
        violations.append({"sig": sig, "what": f"{sig}: expected {json.dumps(d['expected'])} got {json.dumps(d['got'])} for {json.dumps(d['case'])[:300]}", "replay": path})
    if rep["exhaustive_ns_values"] != 1000000000:
        raise ToolError("the exhaustive nanosecond sweep did not run")
    coverage = {
        "states": r1["stats"]["distinct"], "transitions": len(cases), "traces_validated_against_impl": rep["evaluated"],
        "evaluations": rep["evaluated"] + rep["exhaustive_ns_values"],
        "distinct_nontrivial": kinds.get("conv", 0) + kinds.get("add", 0) + kinds.get("sub", 0),
        "rule": "one case = one evaluation of TimeConv.tla (Frac/Nanos round trip, Add, Sub, New) by TLC on boundary and sampled operands, "
                "compared with every corresponding conversion path / operator of the code; in addition every nanosecond value 0..10^9-1 is "
                "converted by the code and compared with TimeConv!Frac (ceil(ns*2^32/10^9)) and with the round trip",
        "cases_by_kind": kinds, "exhaustive_ns_values": rep["exhaustive_ns_values"], "panics": rep["panics"],
        "apalache_proofs_wall_s": proofs,
        "apalache_scope": "TimeConvA.tla, all ns in [0,10^9) (RoundTripInv) and all operand triples in the full i32 x [0,10^9) range (ArithInv), length 0",
        "exhaustive": True, "checker_cmd": r1["stats"]["cmd"],
    }
    return {"level": "model_checking", "coverage": coverage, "violations": violations, "known": known_hits,
            "assumptions": ["TLC + Apalache (z3) are trusted", "the 16-bit-limb Frac/Nanos of TimeConv.tla and the integer FracInt/NanosInt of TimeConvA.tla are linked "
                            "through the code only (both are compared with the same implementation)",
                            "seconds beyond the sampled boundary values are not enumerated for the conversions (they are copied, not computed)"]}


def c14_replay(prop, path):
    rep = json.load(open(path))
    wd = vlib.workdir(prop + ".replay")
    c = rep["case"]
    if "kind" not in c:
        # exhaustive sweep counterexample {"ns": n}: rebuild the conv case from the specification
        r1, cases = _cases_from_tlc("MC_TimeConv", "MC_TimeConv.cfg", wd)
        print(f"exhaustive sweep counterexample ns={c['ns']}: rerunning the sweep")
        cf = os.path.join(wd, "c.cases")
        open(cf, "w").write("")
        out = os.path.join(wd, "c.rep")
        vlib.run_vh(["timeconv", "--cases", cf, "--out", out, "--exhaustive"])
    else:
        cf = os.path.join(wd, "c.cases")
        open(cf, "w").write(json.dumps(c) + "\n")
        out = os.path.join(wd, "c.rep")
        vlib.run_vh(["timeconv", "--cases", cf, "--out", out])
    r = json.load(open(out))
    print(json.dumps(r)[:1500])
    if any(d["sig"] == rep["signature"] for d in r["distinct"]):
        print(f"VIOLATION property={prop} replay={path}")
        return 1
    return 0


def c15_run(prop, tier, seed):
    import random
    wd = vlib.workdir(prop)
    known = vlib.load_known()
    rng = random.Random(seed)
    r1, qcases = _cases_from_tlc("MC_Compat", "MC_Compat.cfg", wd)
    r2, pcases = _cases_from_tlc("MC_Partition", "MC_Partition.cfg", wd)
    if len(qcases) < 1000 or len(pcases) < 100:
        raise ToolError("vacuity guard: too few enumerated compatibility cases")
    cf = os.path.join(wd, "compat.cases")
    with open(cf, "w") as f:
        for c in qcases:
            f.write(json.dumps(c) + "\n")
    rep_path = os.path.join(wd, "compat.rep")
    vlib.run_vh(["compat", "--cases", cf, "--out", rep_path])
    rep = json.load(open(rep_path))
    violations, known_hits = [], []

    def report(sig, what, content):
        kf = next((k for k in known["findings"] if sig.startswith(k["signature"])), None)
        if kf:
            known_hits.append({"sig": sig, "what": f"{kf['what']} [{sig}]"})
            return
        if any(v["sig"] == sig for v in violations):
            return
        name = re.sub(r"[^A-Za-z0-9_.-]", "_", sig)[:140]
        path = vlib.save_replay(prop, name, content)
        violations.append({"sig": sig, "what": what, "replay": path})

    for d in rep["distinct"]:
        sig = "Compat:function:" + d["sig"]
        report(sig, f"{sig}: expected {d['expected']} got {d['got']} for {json.dumps(d['case'])[:300]}",
               {"property": prop, "kind": "function", "signature": sig, "case": {"q": d["case"], "inc": d["expected"]}, "got": d["got"]})
    # end to end: sampled QoS cases (all single-policy incompatibilities + compatible ones) and partition cases
    nq = 120 if tier == "quick" else 1500
    npart = 120 if tier == "quick" else len(pcases)
    qs = rng.sample(qcases, min(nq, len(qcases)))
    # always end to end: the cases in which only one duration-valued policy is off the default and takes the largest finite value
    # (boundary of the wire encoding; the in-memory functions cannot see what the discovery encoding does to it)
    DEFAULTS = {"durability": {"o": 0, "r": 0}, "reliability": {"o": 1, "r": 0}, "liveliness": {"ok": 0, "ol": 4, "rk": 0, "rl": 4},
                "deadline": {"o": 4, "r": 4}, "latency": {"o": 0, "r": 0}, "destorder": {"o": 0, "r": 0}, "ownership": {"o": 0, "r": 0},
                "presentation": {"oa": 0, "oc": False, "oo": False, "ra": 0, "rc": False, "ro": False}, "representation": {"o": [], "r": []}}

    def _boundary(c):
        off = [g for g in c["q"] if c["q"][g] != DEFAULTS[g]]
        return len(off) == 1 and off[0] in ("deadline", "latency", "liveliness") and 3 in [v for k, v in c["q"][off[0]].items() if k in ("o", "r", "ol", "rl")]
    qs += [c for c in qcases if _boundary(c) and c not in qs]
    ps = rng.sample(pcases, min(npart, len(pcases)))
    default_q = next(c for c in qcases if c["inc"] == [])
    e2e = [{"q": c["q"], "pp": [], "sp": [], "expect": c["inc"] == [], "why": c["inc"]} for c in qs]
    e2e += [{"q": default_q["q"], "pp": c["a"], "sp": c["b"], "expect": c["m"], "why": "partition"} for c in ps]
    scen = []
    per = 20
    for k in range(0, len(e2e), per):
        steps = [{"do": "participant"}, {"do": "participant"}, {"do": "sleep", "ms": 200}]
        for j, c in enumerate(e2e[k:k + per]):
            steps.append({"do": "compat_case", "q": c["q"], "pp": c["pp"], "sp": c["sp"], "id": k + j, "ms": 400})
        scen.append({"name": f"C15-e2e-{k}", "family": "e2e", "seed": seed, "frag": 1344, "steps": steps})
    # dynamic family: the requested deadline of the reader changes after discovery; the verdict of the
    # specification for the NEW pair must be reached by both sides (incompatible -> compatible and back)
    dl_ms = {1: 1000, 2: 2000, 4: None}
    dl_cases = {(c["q"]["deadline"]["o"], c["q"]["deadline"]["r"]): c["inc"] == [] for c in qcases
                if all(c["q"][g] == default_q["q"][g] for g in c["q"] if g != "deadline")}
    dyn = []
    for o in (1, 2, 4):
        for ra in (1, 2, 4):
            for rb in (1, 2, 4):
                if ra == rb:
                    continue
                dyn.append({"o": o, "r1": ra, "r2": rb, "first": dl_cases[(o, ra)], "second": dl_cases[(o, rb)]})
    for k, d in enumerate(dyn):
        steps = [{"do": "participant"}, {"do": "participant"},
                 {"do": "create_writer", "part": 0, "qos": scenarios.q(deadline_ms=dl_ms[d["o"]]), "listener": ["OfferedIncompatibleQos"]},
                 {"do": "create_reader", "part": 1, "qos": scenarios.q(deadline_ms=dl_ms[d["r1"]]), "listener": ["RequestedIncompatibleQos"]},
                 {"do": "sleep", "ms": 600}, {"do": "pub_status", "w": 0}, {"do": "sub_status", "r": 0},
                 {"do": "set_reader_qos", "r": 0, "qos": scenarios.q(deadline_ms=dl_ms[d["r2"]])},
                 {"do": "sleep", "ms": 600}, {"do": "pub_status", "w": 0}, {"do": "sub_status", "r": 0}]
        scen.append({"name": f"C15-dyn-{k}", "family": "dyn", "seed": seed, "frag": 1344, "steps": steps, "dyn": d})
    runs = simcheck.run_sim_batch(scen, wd, "c15", jobs=4)
    for sc, run in zip(scen, runs):
        if "dyn" not in sc:
            continue
        d = sc["dyn"]
        obs = [e for e in (run or []) if e["ev"] in ("PubStatus", "SubStatus")]
        if len(obs) != 4:
            report("Compat:dyn:no-observation", f"dynamic case {d} produced {len(obs)} observations", {"property": prop, "kind": "dyn", "case": d})
            continue
        for phase, (a, b) in (("first", obs[0:2]), ("second", obs[2:4])):
            want = 1 if d[phase] else 0
            if a.get("n") != want or b.get("n") != want:
                side = "both" if a.get("n") == b.get("n") else "sides-disagree"
                sig = f"Compat:dyn:{phase}:{'missed-match' if want else 'spurious-match'}:{side}"
                report(sig, f"{sig}: deadline offered {d['o']} requested {d['r1']}->{d['r2']}: expected matched={want}, writer sees {a.get('n')}, reader sees {b.get('n')}",
                       {"property": prop, "kind": "dyn", "signature": sig, "case": d, "scenario": sc})
        # the incompatible-QoS statuses of both sides (seen through listeners): one remote endpoint, reported once, when it is
        # first found incompatible, with total_count 1 and the deadline policy
        want_cb = 0 if (d["first"] and d["second"]) else 1
        for kind, side in (("OfferedIncompatibleQos", "writer"), ("RequestedIncompatibleQos", "reader")):
            cbs = [e for e in (run or []) if e["ev"] == "Listener" and e.get("kind") == kind]
            ok = len(cbs) == want_cb and all(c.get("tot") == 1 and c.get("chg") == 1 and c.get("lastn") == "deadline"
                                             and c.get("policies") == {"deadline": 1} for c in cbs)
            if not ok:
                sig = f"Compat:dyn:incompatible-qos-status:{side}:{'not-reported' if len(cbs) < want_cb else 'wrongly-reported'}"
                report(sig, f"{sig}: deadline offered {d['o']} requested {d['r1']}->{d['r2']}: expected {want_cb} report(s) with total_count 1 "
                            f"naming the deadline policy, got {cbs}",
                       {"property": prop, "kind": "dyn", "signature": sig, "case": d, "scenario": sc})
    checked = 0
    skipped = 0
    status_checked = 0
    for run in runs:
        for e in (run or []):
            if e["ev"] == "SimError":
                report("Compat:e2e:simulation-error", f"simulation error {e['err']}", {"property": prop, "kind": "e2e", "error": e["err"]})
            if e["ev"] != "CompatResult":
                continue
            c = e2e[e["id"]] if "id" in e and e["id"] is not None else None
            if c is None:
                continue
            if "skip" in e:
                skipped += 1
                continue
            checked += 1
            want = 1 if c["expect"] else 0
            if "err" in e or e.get("w_matched") != want or e.get("r_matched") != want:
                side = "both" if e.get("w_matched") == e.get("r_matched") else "sides-disagree"
                sig = f"Compat:e2e:{'partition' if c['why'] == 'partition' else 'qos'}:{'missed-match' if want else 'spurious-match'}:{side}"
                report(sig, f"{sig}: expected matched={want}, writer sees {e.get('w_matched')}, reader sees {e.get('r_matched')} {e.get('err', '')}",
                       {"property": prop, "kind": "e2e", "signature": sig, "case": c, "observed": e})
            # "an incompatible pair is reported as offered/requested incompatible QoS naming the offending policies":
            # one remote endpoint => total_count 1, every offending policy of Compat.tla's Incompatible(q) counted once,
            # last_policy_id one of them; a compatible pair (also one kept apart by its partitions) reports nothing
            inc = [] if c["why"] == "partition" else sorted(c["why"])
            for level, side in (("compat-w", "writer"), ("compat-r", "reader")):
                cbs = [x for x in run if x["ev"] == "Listener" and x.get("level") == level and x.get("idx") == e["id"]]
                status_checked += 1
                if not inc:
                    ok = cbs == []
                else:
                    ok = (len(cbs) == 1 and cbs[0].get("tot") == 1 and cbs[0].get("chg") == 1
                          and sorted((cbs[0].get("policies") or {}).keys()) == inc
                          and all(v == 1 for v in cbs[0]["policies"].values()) and cbs[0].get("lastn") in inc)
                if not ok:
                    sig = f"Compat:e2e:incompatible-qos-status:{side}:{'wrongly-reported' if not inc else ('not-reported' if not cbs else 'wrong-policies-or-count')}"
                    report(sig, f"{sig}: expected {'no report' if not inc else 'one report with total_count 1 naming ' + str(inc)}, got {cbs}",
                           {"property": prop, "kind": "e2e", "signature": sig, "case": c, "observed": cbs})
    if (checked + skipped < len(e2e) * 0.9 or checked < len(e2e) * 0.5) and not violations:
        raise ToolError(f"only {checked} of {len(e2e)} end-to-end cases produced a result")
    coverage = {
        "states": r1["stats"]["distinct"] + r2["stats"]["distinct"],
        "transitions": len(qcases) + len(pcases),
        "traces_validated_against_impl": len(qcases) * 2 + checked,
        "evaluations": len(qcases) * 2 + checked,
        "distinct_nontrivial": rep["nontrivial"],
        "rule": "every enumerated (offered, requested) QoS record of Compat.tla is evaluated by both compatibility functions of the "
                "code; sampled records and partition-list pairs are additionally created as real writer/reader pairs in the simulation; "
                "non-trivial = records the specification declares incompatible",
        "function_cases": len(qcases), "function_disagreements": rep["disagreements"],
        "dynamic_requalification_cases": len(dyn),
        "incompatible_qos_statuses_judged": status_checked,
        "end_to_end_cases": checked, "end_to_end_cases_skipped_inconsistent_qos": skipped, "partition_cases_enumerated": len(pcases),
        "exhaustive": True,
        "checker_cmd": r1["stats"]["cmd"],
        "samples": [qcases[0], qcases[len(qcases) // 2], pcases[len(pcases) // 3]],
    }
    return {"level": "model_checking", "coverage": coverage, "violations": violations, "known": known_hits,
            "assumptions": ["abstract value -> concrete QoS mapping in harness/src/compat.rs", "TLC + CommunityModules Json",
                            "pattern-against-pattern partition matching is outside the enumerated domain"]}


def c15_replay(prop, path):
    rep = json.load(open(path))
    wd = vlib.workdir(prop + ".replay")
    if rep.get("kind") == "function":
        cf = os.path.join(wd, "c.cases")
        open(cf, "w").write(json.dumps(rep["case"]) + "\n")
        out = os.path.join(wd, "c.rep")
        vlib.run_vh(["compat", "--cases", cf, "--out", out])
        r = json.load(open(out))
        print(json.dumps(r)[:1500])
        if r["disagreements"] > 0:
            print(f"VIOLATION property={prop} replay={path}")
            return 1
        return 0
    c = rep["case"]
    scen = [{"name": "replay", "seed": 1, "frag": 1344, "steps": [{"do": "participant"}, {"do": "participant"}, {"do": "sleep", "ms": 200},
            {"do": "compat_case", "q": c["q"], "pp": c["pp"], "sp": c["sp"], "id": 0, "ms": 400}]}]
    runs = simcheck.run_sim_batch(scen, wd, "r", jobs=1)
    want = 1 if c["expect"] else 0
    for e in runs[0] or []:
        if e["ev"] == "CompatResult":
            print(json.dumps(e))
            if e.get("w_matched") != want or e.get("r_matched") != want:
                print(f"VIOLATION property={prop} replay={path}")
                return 1
    return 0


PROPS["C15"] = {"run": c15_run, "replay": c15_replay}
PROPS["C14"] = {"run": c14_run, "replay": c14_replay}

def _c01():
    base = simprop(scenarios.c01, ["C01", "C06"], {"data": 50, "acknack": 20, "take": 20, "final": 20, "faults": 10})

    def run(p, tier, seed):
        res = base["run"](p, tier, seed)
        if tier == "thorough":
            wd = vlib.workdir(p + ".selftest")
            sample = [s for s in scenarios.c01("quick", seed) if s["family"] == "rule"][:12]
            res["coverage"]["binding_self_test"] = {
                "what": "12 recorded traces are accepted; each of four single-field corruptions of the same trace is rejected by Trace_Rtps.tla",
                "rules_raised_by_corruption": simcheck.binding_selftest(wd, sample)}
        return res
    return {"run": run, "replay": base["replay"]}


PROPS["C01"] = _c01()


def _c34():
    g = graphprop("Channels", "Channels", ["MC_Channels_oneshot.cfg", "MC_Channels_mpsc.cfg", "MC_Channels_notification.cfg", "MC_Channels_mpsc_walk.cfg"],
                  ["poll:value", "poll:pending", "poll:disconnected", "drop:last-sender", "poll:racing-send", "poll:racing-drop"],
                  "channels driven through the cfg(dust_dds_verif) re-export; every operation of the code is one critical section")

    def run(p, tier, seed):
        wd = vlib.workdir(p + ".apalache")
        proofs = {"IndInv holds initially": _apalache("IndInv", wd, module="ChannelsA.tla", extra=("--init=Init", "--length=0")),
                  "IndInv is inductive": _apalache("IndInv", wd, module="ChannelsA.tla", extra=("--init=IndInit", "--length=1"))}
        if tier == "thorough":
            proofs["NoLostWakeup fails for the split poll (must fail)"] = _apalache("NoLostWakeup", wd, expect_ok=False, module="ChannelsA.tla",
                                                                                   extra=("--init=Init", "--next=NextSplit", "--length=4"))
        res = g["run"](p, tier, seed)
        res["coverage"]["apalache_inductive_invariant_wall_s"] = proofs
        res["coverage"]["apalache_scope"] = ("ChannelsA.tla: NoLostWakeup /\\ Fifo is an inductive invariant of the mpsc channel for any number of sends, polls, "
                                             "clones and drops (unbounded), not only for the configurations TLC enumerates")
        res["assumptions"].append("Apalache / z3 are trusted; ChannelsA.tla abstracts the queue to its bounds (values are consecutive integers)")
        return res
    return {"run": run, "replay": g["replay"]}


PROPS["C34"] = _c34()


def c06_run(prop, tier, seed):
    wd = vlib.workdir(prop + ".enum")
    r1, cases = _cases_from_tlc("MC_Adversary", "MC_Adversary.cfg", wd)
    if len(cases) < 5000:
        raise ToolError("vacuity guard: too few adversarial messages enumerated")
    scen = scenarios.c06(tier, seed, cases)
    os.environ.setdefault("VH_WALL_LIMIT", "20")
    res = simcheck.sim_check(prop, tier, seed, scen, "Trace_Adversary", lambda rule: rule.startswith("C06:"),
                             {"scenarios": 1500, "injected": 1500, "probes": 1500, "probesok": 1000}, RTPS_NOTE, mc=None,
                             norm=tracenorm.normalise_adversary, jobs=8)
    res["coverage"]["adversary_messages_enumerated"] = len(cases)
    res["coverage"]["adversary_messages_injected"] = len(scen)
    res["coverage"]["states"] += r1["stats"]["distinct"]
    res["coverage"]["rule"] = ("one case = one message of Adversary.tla (TLC-enumerated: every submessage kind with at most two fields off their default, "
                               "header / truncation / INFO_* prefix variants) injected into a victim participant with live reliable endpoints in both "
                               "directions; afterwards a fresh participant probes the victim; validated by TLC against Trace_Adversary.tla")
    res["assumptions"].append("heap usage is measured by a counting global allocator of the harness process (all participants of the simulation share it)")
    return res


def c06_replay(prop, path):
    return simcheck.sim_replay(prop, path, "Trace_Adversary", norm=tracenorm.normalise_adversary)


PROPS["C06"] = {"run": c06_run, "replay": c06_replay}


def _keyhash(prop, tier, seed, owns):
    """KeyHash.tla cases on the handle computation + end to end in the simulation; `owns` selects the signatures of this property"""
    wd = vlib.workdir(prop)
    known = vlib.load_known()
    r1, cases = _cases_from_tlc("MC_KeyHash", "MC_KeyHash.cfg", wd)
    if len(cases) < 500:
        raise ToolError("vacuity guard: too few key hash cases")
    cf = os.path.join(wd, "keyhash.cases")
    with open(cf, "w") as f:
        for c in cases:
            f.write(json.dumps(c) + "\n")
    rep_path = os.path.join(wd, "keyhash.rep")
    vlib.run_vh(["keyhash", "--cases", cf, "--out", rep_path])
    rep = json.load(open(rep_path))
    found = [(d["sig"], f"expected {bytes(d['expected']).hex() if isinstance(d['expected'], list) else d['expected']} got "
                        f"{bytes(d['got']).hex() if isinstance(d['got'], list) else d['got']} for {json.dumps(d['case'])[:300]}", {"case": d["case"]})
             for d in rep["distinct"]]
    # end to end: writer-assigned handle = reader-derived handle (alive and disposed samples) = specification
    import random
    rng = random.Random(seed)
    by_type = {}
    for c in cases:
        by_type.setdefault(c["t"], []).append(c)
    scen = []
    per = 12 if tier == "quick" else 60
    for t, cs in sorted(by_type.items()):
        pick = cs if len(cs) <= per else rng.sample(cs, per)
        scen.append({"name": f"{prop}-e2e-{t}", "family": "e2e", "seed": seed, "frag": 1344, "expected": {json.dumps(c["v"]): c["e"] for c in pick},
                     "steps": [{"do": "participant"}, {"do": "participant"}, {"do": "sleep", "ms": 300},
                               {"do": "keyhash_e2e", "type": t, "values": [c["v"] for c in pick]}, {"do": "final"}]})
    runs = simcheck.run_sim_batch(scen, wd, "kh", jobs=4)
    import hashlib
    e2e = 0
    for sc, run in zip(scen, runs):
        for e in run or []:
            if e["ev"] == "SimError":
                found.append(("KeyHash:e2e:simulation-error", str(e["err"])[:200], {"scenario": sc}))
            if e["ev"] != "KeyE2E":
                continue
            if "error" in e:
                found.append((f"KeyHash:e2e:error:{e['type']}", e["error"], {"scenario": sc}))
                continue
            e2e += 1
            exp = sc["expected"][json.dumps(e["v"])]
            want = exp["bytes"] if exp["mode"] == "pad" else list(hashlib.md5(bytes(exp["bytes"])).digest())
            if e["hw"] != e["hr"]:
                found.append((f"KeyHash:identity:reader-handle-differs-from-writer-handle:{e['phase']}",
                              f"type {e['type']} key {e['v']}: writer {e['hw']} reader {e['hr']}", {"scenario": sc, "event": e}))
            # C12: the handle the reader USES is the key hash as well, also when it has to derive it from the payload
            if e["hr"] != want and e["hr"] != e["hw"]:
                found.append((f"KeyHash:{exp['mode']}:e2e:reader-uses-a-handle-that-is-not-the-key-hash:{e['phase']}",
                              f"type {e['type']} key {e['v']}: expected {want} reader uses {e['hr']}", {"scenario": sc, "event": e}))
            if e["hw"] != want:
                how = "padded-although-max-size-exceeds-16" if exp["mode"] == "md5" else "octets"
                found.append((f"KeyHash:{exp['mode']}:e2e:{how}", f"type {e['type']} key {e['v']}: expected {want} got {e['hw']}", {"scenario": sc, "event": e}))
    violations, known_hits, other = [], [], {}
    for sig, what, content in found:
        if not owns(sig):
            other[sig] = other.get(sig, 0) + 1
            continue
        kf = next((k for k in known["findings"] if sig.startswith(k["signature"])), None)
        if kf:
            if not any(h["sig"] == sig for h in known_hits):
                known_hits.append({"sig": sig, "what": f"{kf['what']} [{sig}]"})
            continue
        if any(v["sig"] == sig for v in violations):
            continue
        content.update({"property": prop, "signature": sig})
        path = vlib.save_replay(prop, re.sub(r"[^A-Za-z0-9_.-]", "_", sig)[:140], content)
        violations.append({"sig": sig, "what": f"{sig}: {what}", "replay": path})
    if (e2e < 50 or rep["evaluated"] != len(cases)) and not violations:
        raise ToolError(f"vacuity guard: only {e2e} end-to-end observations / {rep['evaluated']} function cases")
    coverage = {"states": r1["stats"]["distinct"], "transitions": len(cases), "traces_validated_against_impl": rep["evaluated"] + e2e,
                "evaluations": rep["evaluated"] * 2 + rep["pairs"] + e2e, "distinct_nontrivial": rep["md5"] + rep["pad"],
                "function_cases": rep["evaluated"], "pad_cases": rep["pad"], "md5_cases": rep["md5"], "value_pairs_compared": rep["pairs"], "key_types": rep["types"],
                "end_to_end_observations": e2e, "signatures_owned_by_the_other_key_property": other,
                "rule": "one case = one (key type, key value) of MC_KeyHash.tla: TLC computes the serialized key, its maximum size and the pad/MD5 decision; the harness computes the handle of a "
                        "real sample of the corresponding Rust type (twice, with different non-key members), compares it with the specification, compares all pairs of values of a type "
                        "(same handle iff same key), and in the simulation compares the handle returned by register_instance, the handle of the sample presented by a remote reader and "
                        "the handle of the disposed instance",
                "exhaustive": True, "checker_cmd": r1["stats"]["cmd"]}
    return {"level": "model_checking", "coverage": coverage, "violations": violations, "known": known_hits,
            "assumptions": ["the Rust types of harness/src/keyhash.rs are the types of MC_KeyHash.tla (same key members in the same order)",
                            "MD5 is computed by the harness (md5 crate / hashlib) from the octets the specification gives",
                            "key members of 64 bit and floating point kinds, sequences, arrays, enumerations, explicit member ids are outside the enumerated type language"]}


def _keyhash_replay(prop, path):
    rep = json.load(open(path))
    wd = vlib.workdir(prop + ".replay")
    if "scenario" in rep:
        runs = simcheck.run_sim_batch([rep["scenario"]], wd, "r", jobs=1)
        for e in runs[0] or []:
            if e["ev"] == "KeyE2E":
                print(json.dumps(e)[:400])
        print("end-to-end replays are judged by ./check (run it again); events printed above")
        return 0
    cf = os.path.join(wd, "c.cases")
    open(cf, "w").write(json.dumps(rep["case"]) + "\n")
    out = os.path.join(wd, "c.rep")
    vlib.run_vh(["keyhash", "--cases", cf, "--out", out])
    r = json.load(open(out))
    print(json.dumps(r)[:1500])
    if any(d["sig"] == rep["signature"] for d in r["distinct"]):
        print(f"VIOLATION property={prop} replay={path}")
        return 1
    return 0


PROPS["C11"] = {"run": lambda p, t, s: _keyhash(p, t, s, lambda sig: sig.startswith("KeyHash:identity") or sig.startswith("KeyHash:e2e") or sig.startswith("KeyHash:error")),
                "replay": _keyhash_replay}
PROPS["C12"] = {"run": lambda p, t, s: _keyhash(p, t, s, lambda sig: sig.startswith("KeyHash:pad") or sig.startswith("KeyHash:md5") or sig.startswith("KeyHash:e2e") or sig.startswith("KeyHash:error")),
                "replay": _keyhash_replay}


def c08_run(prop, tier, seed):
    wd = vlib.workdir(prop)
    known = vlib.load_known()
    r1, cases = _cases_from_tlc("MC_Wire", "MC_Wire.cfg", wd)
    if len(cases) < 3000:
        raise ToolError("vacuity guard: too few wire messages enumerated")
    cf = os.path.join(wd, "wire.cases")
    with open(cf, "w") as f:
        for c in cases:
            f.write(json.dumps(c) + "\n")
    rep_path = os.path.join(wd, "wire.rep")
    vlib.run_vh(["wire", "--cases", cf, "--out", rep_path])
    rep = json.load(open(rep_path))
    violations, known_hits = [], []
    for d in rep["distinct"]:
        sig = d["sig"]
        kf = next((k for k in known["findings"] if sig.startswith(k["signature"])), None)
        if kf:
            known_hits.append({"sig": sig, "what": f"{kf['what']} [{sig}]"})
            continue
        path = vlib.save_replay(prop, re.sub(r"[^A-Za-z0-9_.-]", "_", sig)[:140], {"property": prop, "signature": sig, "case": d["case"]})
        violations.append({"sig": sig, "what": f"{sig}: {d['detail']} for {json.dumps(d['case'])[:300]}", "replay": path})
    if rep["evaluated"] != len(cases) or len(rep["kinds"]) < 10:
        raise ToolError("the harness did not evaluate every enumerated message")
    coverage = {"states": r1["stats"]["distinct"], "transitions": len(cases), "traces_validated_against_impl": rep["evaluated"], "evaluations": rep["evaluated"] * 4,
                "distinct_nontrivial": rep["evaluated"], "submessages_by_kind": rep["kinds"], "messages_larger_than_65535_octets": rep["messages_larger_than_65535"],
                "rule": "one case = one abstract message of Wire.tla (every submessage kind with at most two fields off the default, alone, in front of a HEARTBEAT, behind an INFO_TS): "
                        "encoded by the library, length fields and total length compared with Wire!EncLen/LenField, bytes compared with an independent encoder, then the library's bytes and "
                        "the independent little- and big-endian encodings are decoded by the library and compared field by field with the abstract message",
                "exhaustive": True, "checker_cmd": r1["stats"]["cmd"]}
    return {"level": "model_checking", "coverage": coverage, "violations": violations, "known": known_hits,
            "assumptions": ["64 bit field values are named in the specification and mapped to numbers by the harness (harness/src/wire.rs)",
                            "the independent encoder is part of the harness", "INFO_REPLY, PAD and vendor specific submessages are only covered as received (adversarial) messages (C06)"]}


def c08_replay(prop, path):
    rep = json.load(open(path))
    wd = vlib.workdir(prop + ".replay")
    cf = os.path.join(wd, "c.cases")
    open(cf, "w").write(json.dumps(rep["case"]) + "\n")
    out = os.path.join(wd, "c.rep")
    vlib.run_vh(["wire", "--cases", cf, "--out", out])
    r = json.load(open(out))
    print(json.dumps(r)[:1500])
    if any(d["sig"] == rep["signature"] for d in r["distinct"]):
        print(f"VIOLATION property={prop} replay={path}")
        return 1
    return 0


PROPS["C08"] = {"run": c08_run, "replay": c08_replay}


def c42_run(prop, tier, seed):
    import time
    wd = vlib.workdir(prop)
    known = vlib.load_known()
    cfg = "MC_StdTimer.cfg" if tier == "quick" else "MC_StdTimer_full.cfg"
    r1 = vlib.run_tlc("StdTimer", cfg, wd, workers=8, timeout=2400, capture_edges=False)
    mc = [{"module": "StdTimer", "cfg": cfg, "distinct_states": r1["stats"]["distinct"], "generated": r1["stats"]["generated"],
           "action_coverage": r1["stats"]["coverage"], "cmd": r1["stats"]["cmd"]}]
    if tier == "thorough":
        try:
            vlib.run_tlc("StdTimer", "MC_StdTimer_strong.cfg", wd, workers=4, timeout=600, capture_edges=False)
        except ToolError:
            mc.append({"module": "StdTimer", "cfg": "MC_StdTimer_strong.cfg", "self_test": "NoWakeAfterDrop violated as required"})
        else:
            raise ToolError("self test: MC_StdTimer_strong.cfg should violate NoWakeAfterDrop")
    runs = 2 if tier == "quick" else 6
    threads, sleeps = (8, 25) if tier == "quick" else (16, 60)
    norm_path = os.path.join(wd, "trace.norm.ndjson")
    t0 = time.time()
    with open(norm_path, "w") as g:
        for k in range(runs):
            outp = os.path.join(wd, f"timer.{k}.ndjson")
            vlib.run_vh(["timer", "--out", outp, "--threads", str(threads), "--sleeps", str(sleeps), "--seed", str(seed * 10 + k)], timeout=1800)
            for line in open(outp):
                e = json.loads(line)
                for f in ("t", "t0", "dur", "timeout", "last_wake"):
                    if f in e:
                        e[f] = int(min(2_000_000_000, e[f]))
                g.write(json.dumps(e, separators=(",", ":")) + "\n")
    run_wall = time.time() - t0
    res = simcheck.validate("Trace_Timer", norm_path, wd, "v")
    violations, known_hits = [], []
    for v in res["violations"]:
        sig = f"Trace_Timer:{v['rule']}"
        kf = next((x for x in known["findings"] if sig.startswith(x["signature"])), None)
        if kf:
            known_hits.append({"sig": sig, "what": f"{kf['what']} [{sig}]"})
            continue
        if any(x["sig"] == sig for x in violations):
            continue
        lines = open(norm_path).read().splitlines()
        ev = json.loads(lines[v["line"] - 1])
        related = [json.loads(x) for x in lines if f'"id":{ev.get("id")},' in x or x.endswith(f'"id":{ev.get("id")}' + "}")]
        path = vlib.save_replay(prop, re.sub(r"[^A-Za-z0-9_.-]", "_", sig)[:140],
                                {"property": prop, "spec": "Trace_Timer", "rule": v["rule"], "signature": sig, "event": ev, "events_of_the_sleep": related,
                                 "threads": threads, "sleeps": sleeps, "seed": seed})
        violations.append({"sig": sig, "what": f"{v['rule']} at event {json.dumps(ev)[:300]}", "replay": path})
    c = res["counters"]
    need = {"sleeps": 100, "ready": 40, "droppedjudged": 20, "blockon": 20, "blocktimeoutok": 5, "blocktimeouttimeout": 5}
    missing = [k for k, m in need.items() if c.get(k, 0) < m]
    if missing and not violations:
        raise ToolError(f"vacuity guard: counters {missing} too low: {c}")
    coverage = {"states": r1["stats"]["distinct"] + res["states"], "transitions": r1["stats"]["generated"] + res["lines"],
                "model_checking_runs": mc, "traces_validated_against_impl": runs, "evaluations": c.get("sleeps", 0) + c.get("blockon", 0) + c.get("blocktimeoutok", 0) + c.get("blocktimeouttimeout", 0),
                "distinct_nontrivial": c.get("ready", 0) + c.get("droppedjudged", 0),
                "rule": "StdTimer.tla model-checked exhaustively (2 sleeps, durations 0..2, 4 ticks, spurious polls); the real TimerDriver / block_on / block_timeout run under "
                        f"{threads} concurrent threads x {sleeps} operations x {runs} runs with wall-clock timings, validated event by event by TLC against Trace_Timer.tla",
                "rule_counters": c, "max_lateness_us": c.get("maxlate"), "trace_events": res["lines"], "run_wall_s": round(run_wall, 1),
                "tlc_wall_s": res["wall_s"], "checker_cmd": res["cmd"], "exhaustive": False}
    return {"level": "model_checking", "coverage": coverage, "violations": violations, "known": known_hits,
            "assumptions": ["real time: timings come from one monotonic clock (Instant); liveness rules use a 5 s slack, the dropped-sleep rule only judges sleeps "
                            "dropped at least 300 ms before their deadline (StdTimer!NoWakeAfterDrop does not hold without that margin)",
                            "TLC and the CommunityModules are trusted", "the executor (spawn / join) is exercised only through the repository's own use of it in the other checks"]}


def c42_replay(prop, path):
    rep = json.load(open(path))
    wd = vlib.workdir(prop + ".replay")
    # real-time behaviour cannot be replayed exactly: run the same stress again and report whether the rule fires again
    outp = os.path.join(wd, "timer.ndjson")
    vlib.run_vh(["timer", "--out", outp, "--threads", str(rep.get("threads", 8)), "--sleeps", str(rep.get("sleeps", 25)), "--seed", str(rep.get("seed", 1) * 10)], timeout=1800)
    res = simcheck.validate("Trace_Timer", outp, wd, "v")
    print(json.dumps(res["violations"])[:2000])
    if any(v["rule"] == rep["rule"] for v in res["violations"]):
        print(f"VIOLATION property={prop} replay={path}")
        return 1
    return 0


PROPS["C42"] = {"run": c42_run, "replay": c42_replay}



# ------------------------------------------------------------------------------------------
# C33: listener dispatch, StatusWait/MC_Dispatch enumerated by TLC, each configuration raised in the simulation
# ------------------------------------------------------------------------------------------
def c33_run(prop, tier, seed):
    wd = vlib.workdir(prop)
    known = vlib.load_known()
    r1, cases = _cases_from_tlc("MC_Dispatch", "MC_Dispatch.cfg", wd)
    if len(cases) < 60:
        raise ToolError("vacuity guard: too few dispatch configurations")
    scen = []
    for k, c in enumerate(cases):
        cc = c["c"]
        scen.append({"name": f"C33-{k}", "family": "dispatch", "seed": seed, "frag": 1344, "case": c,
                     "steps": [{"do": "dispatch_case", "status": cc["k"], "em": cc["em"], "gm": cc["gm"], "pm": cc["pm"], "dor": cc["dor"], "how": cc.get("how", "create"), "id": k}]})
    runs = simcheck.run_sim_batch(scen, wd, "c33", jobs=4)
    violations, known_hits = [], []
    checked = nontrivial = 0

    def report(sig, what, content):
        kf = next((k for k in known["findings"] if sig.startswith(k["signature"])), None)
        if kf:
            if not any(h["sig"] == sig for h in known_hits):
                known_hits.append({"sig": sig, "what": f"{kf['what']} [{sig}]"})
            return
        if any(v["sig"] == sig for v in violations):
            return
        path = vlib.save_replay(prop, re.sub(r"[^A-Za-z0-9_.-]", "_", sig)[:140], content)
        violations.append({"sig": sig, "what": what, "replay": path})

    for sc, run in zip(scen, runs):
        c = sc["case"]
        evs = run or []
        if any(e["ev"] == "SimError" for e in evs):
            report("Dispatch:simulation-error", f"simulation error in {c}", {"property": prop, "scenario": sc})
            continue
        if any(e["ev"] == "DispatchSkip" for e in evs):
            continue
        k = c["c"]["k"]
        want_level, want_kind = c["to"]["level"], c["to"]["kind"]
        relevant = {k, "DataOnReaders"} if k == "DataAvailable" else {k}
        calls = [(e["level"], e["kind"]) for e in evs if e["ev"] == "Listener" and e["kind"] in relevant]
        checked += 1
        if want_level != "none":
            nontrivial += 1
        wrong = [x for x in calls if x != (want_level, want_kind)]
        right = [x for x in calls if x == (want_level, want_kind)]
        base = f"Dispatch:{k}:{'dor' if c['c']['dor'] else 'mask'}:{c['c'].get('how', 'create')}"
        if wrong:
            report(f"{base}:delivered-to-wrong-listener:{wrong[0][0]}",
                   f"{k} masks em={c['c']['em']} gm={c['c']['gm']} pm={c['c']['pm']} dor={c['c']['dor']}: expected {want_level}/{want_kind}, also delivered to {sorted(set(wrong))}",
                   {"property": prop, "scenario": sc, "calls": calls})
        if want_level != "none" and not right:
            report(f"{base}:not-delivered-to:{want_level}",
                   f"{k}: expected a callback at {want_level}/{want_kind}, got {calls}", {"property": prop, "scenario": sc, "calls": calls})
        expected_once = k in ("SubscriptionMatched", "PublicationMatched", "DataAvailable", "SampleRejected",
                              "RequestedIncompatibleQos", "OfferedIncompatibleQos")
        if expected_once and len(right) > 1:
            report(f"{base}:delivered-more-than-once-per-change:{want_level}",
                   f"{k}: one status change but {len(right)} callbacks at {want_level}", {"property": prop, "scenario": sc, "calls": calls})
    if checked < len(cases) * 0.9:
        raise ToolError(f"only {checked} of {len(cases)} dispatch configurations were exercised")
    coverage = {"states": r1["stats"]["distinct"], "transitions": len(cases), "traces_validated_against_impl": checked,
                "evaluations": checked, "distinct_nontrivial": nontrivial, "exhaustive": True,
                "rule": "one case = one (status kind, reader/writer mask, subscriber/publisher mask, participant mask, DATA_ON_READERS) "
                        "configuration of MC_Dispatch.tla, raised by a real event in the simulation with recording listeners at all "
                        "three levels; non-trivial = configurations in which some listener must be called",
                "checker_cmd": r1["stats"]["cmd"], "samples": cases[:2] + cases[-1:]}
    return {"level": "model_checking", "coverage": coverage, "violations": violations, "known": known_hits,
            "assumptions": ["recording listeners log every callback; statuses are raised by real events (match, data, deadline, "
                            "rejection, incompatible QoS)", "a listener object is installed wherever a mask is non-empty"]}


def c33_replay(prop, path):
    rep = json.load(open(path))
    wd = vlib.workdir(prop + ".replay")
    sc = rep["scenario"]
    runs = simcheck.run_sim_batch([sc], wd, "r", jobs=1)
    c = sc["case"]
    k = c["c"]["k"]
    relevant = {k, "DataOnReaders"} if k == "DataAvailable" else {k}
    calls = [(e["level"], e["kind"]) for e in (runs[0] or []) if e["ev"] == "Listener" and e["kind"] in relevant]
    print(json.dumps({"expected": c["to"], "calls": calls}))
    want = (c["to"]["level"], c["to"]["kind"])
    bad = [x for x in calls if x != want] or (want[0] != "none" and not calls) or (len(calls) > 1 and k not in ("RequestedDeadlineMissed", "OfferedDeadlineMissed"))
    if bad:
        print(f"VIOLATION property={prop} replay={path}")
        return 1
    return 0


PROPS["C33"] = {"run": c33_run, "replay": c33_replay}
