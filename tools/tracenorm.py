"""Normalises simulation event logs (ndjson) for the TLA+ trace specifications:
fixed record shapes (every field present, no nulls), times in microseconds (TLC integers are 32 bit)."""
import json

US = 1000
BIG = 2_000_000_000


def us(v):
    if v is None:
        return -1
    return max(-BIG, min(BIG, int(v) // US))


def qos_norm(q):
    q = q or {}

    def ms(k):
        v = q.get(k)
        return -1 if v is None or v < 0 else int(v) * 1000
    return {"rel": q.get("rel", "RELIABLE"), "dur": q.get("dur", "VOLATILE"), "depth": int(q.get("hist") or 0),
            "lifespan": ms("lifespan_ms"), "blocking": ms("max_blocking_ms") if q.get("max_blocking_ms") is not None else 100_000,
            "deadline": ms("deadline_ms")}


SUB_DEFAULT = {"k": "", "sn": -1, "f": -1, "n": -1, "fs": -1, "ds": -1, "len": -1, "first": -1, "last": -1,
               "c": -1, "base": -1, "set": [], "start": -1, "st": 0, "fin": 0}
SUB_KEEP = {"DATA", "DATAFRAG", "HB", "ACKNACK", "GAP", "NACKFRAG"}


def sub_norm(s):
    o = dict(SUB_DEFAULT)
    o["k"] = s["k"]
    for k in ("sn", "f", "n", "fs", "ds", "len", "first", "last", "c", "base", "start", "st"):
        if k in s and s[k] is not None:
            o[k] = int(s[k])
    o["set"] = [int(x) for x in s.get("set", [])]
    o["fin"] = 1 if s.get("final") else 0
    return o


def normalise(events, frag_default=1344):
    """Yield normalised events. Events the RTPS trace spec does not use are kept as {'ev': 'Other'}."""
    for e in events:
        ev = e["ev"]
        t = us(e.get("t", 0))
        if ev == "Reset":
            yield {"ev": "Reset", "t": 0, "frag": int(e.get("frag") or frag_default), "name": str(e.get("name"))}
        elif ev == "CreateWriter":
            yield {"ev": "CreateWriter", "t": t, "net": e["net"], "q": qos_norm(e.get("qos")), "ok": 1 if e["res"] == "Ok" else 0}
        elif ev == "CreateReader":
            yield {"ev": "CreateReader", "t": t, "net": e["net"], "q": qos_norm(e.get("qos")), "ok": 1 if e["res"] == "Ok" else 0}
        elif ev == "DeleteReader":
            yield {"ev": "DeleteReader", "t": t, "r": e["r"]}
        elif ev == "Matched":
            yield {"ev": "Matched", "t": t, "n": e["n"], "want": e["want"]}
        elif ev == "WriteCall":
            yield {"ev": "WriteCall", "t": t, "i": e["i"], "seq": e["seq"], "len": e["len"], "kind": e["kind"],
                   "ts": -1 if e.get("ts_ms") is None else int(e["ts_ms"]) * 1000}
        elif ev == "WriteRet":
            yield {"ev": "WriteRet", "t": t, "t0": us(e["t0"]), "i": e["i"], "seq": e["seq"], "len": e["len"], "kind": e["kind"], "res": e["res"]}
        elif ev == "Send":
            subs = [sub_norm(s) for s in e["subs"] if s["k"] in SUB_KEEP]
            yield {"ev": "Send", "t": t, "id": e["id"], "from": e["from"], "to": e["to"], "dup": 1 if ("dupof" in e or e.get("merged")) else 0,   # re-packaged by the network, not emitted by the endpoint
                   "meta": 1 if e.get("meta") else 0, "subs": subs}
        elif ev in ("Deliver", "Drop"):
            yield {"ev": ev, "t": t, "id": e["id"], "to": e["to"]}
        elif ev in ("Take", "Read"):
            ss = []
            for s in e["samples"]:
                ss.append({"valid": 1 if s.get("valid") else 0, "w": s.get("w", -1), "seq": s.get("seq", -1), "i": s.get("i", s.get("ih", -1)),
                           "len": s.get("len", -1), "ok": 1 if s.get("ok", True) else 0, "ts": us(s.get("ts")), "is": s.get("is", "")})
            yield {"ev": "Take", "t": t, "r": e["r"], "res": e["res"], "take": 1 if ev == "Take" else 0, "samples": ss}
        elif ev == "WaitAcksCall":
            yield {"ev": "WaitAcksCall", "t": t}
        elif ev == "WaitAcksRet":
            yield {"ev": "WaitAcksRet", "t": t, "res": e["res"], "dt": us(e["dt"]), "must": 1 if e.get("must") else 0}
        elif ev == "WaitHistCall":
            yield {"ev": "WaitHistCall", "t": t, "r": e["r"]}
        elif ev == "WaitHistRet":
            yield {"ev": "WaitHistRet", "t": t, "r": e["r"], "res": e["res"], "dt": us(e["dt"]), "must": 1 if e.get("must") else 0}
        elif ev == "Heal":
            yield {"ev": "Heal", "t": t}
        elif ev == "Quiesce":
            yield {"ev": "Quiesce", "t": t, "ms": e["ms"]}
        elif ev == "Final":
            yield {"ev": "Final", "t": t}
        elif ev == "Sleep":
            yield {"ev": "Sleep", "t": t, "d": us(e["d"]) if e["d"] >= 0 else -1, "dns": max(-1, min(BIG, int(e["d"])))}
        elif ev == "SimError":
            yield {"ev": "SimError", "t": 0, "err": e["err"]}
        elif ev in ("DeleteParticipant", "Silence"):
            yield {"ev": ev, "t": t, "net": e.get("net", -1), "p": e.get("p", -1)}
        else:
            yield {"ev": "Other", "t": t, "what": ev}


def normalise_file(src, dst):
    n = 0
    with open(src) as f, open(dst, "w") as g:
        evs = (json.loads(l) for l in f if l.strip())
        for e in normalise(evs):
            g.write(json.dumps(e, separators=(",", ":")) + "\n")
            n += 1
    return n


def normalise_discovery(events):
    """Normalised events for Trace_Discovery.tla."""
    sent = {}
    for e in events:
        ev = e["ev"]
        t = us(e.get("t", 0))
        if ev == "Reset":
            sent = {}
            yield {"ev": "Reset", "t": 0}
        elif ev == "Participant":
            yield {"ev": "Participant", "t": t, "net": e["net"], "domain": int(e.get("domain") or 0), "tag": e.get("tag") or ""}
        elif ev in ("CreateWriter", "CreateReader"):
            yield {"ev": ev, "t": t, "net": e["net"], "q": qos_norm(e.get("qos")), "ok": 1 if e["res"] == "Ok" else 0}
        elif ev == "DeleteReader":
            yield {"ev": "DeleteReader", "t": t, "r": e["r"]}
        elif ev == "SetReaderQos":
            yield {"ev": "SetReaderQos", "t": t, "r": e["r"], "q": qos_norm(e.get("qos")), "ok": 1 if e["res"] == "Ok" else 0}
        elif ev == "Silence":
            yield {"ev": "Silence", "t": t, "net": e["net"]}
        elif ev == "Unsilence" or ev == "Heal":
            yield {"ev": "Unsilence", "t": t}
        elif ev == "DeleteParticipant":
            yield {"ev": "DeleteParticipant", "t": t, "net": e.get("net", -1)}
        elif ev == "Ignore":
            yield {"ev": "Ignore", "t": t, "net": e["net"], "target": e["target_net"]}
        elif ev == "MetaFaults":
            yield {"ev": "MetaFaults", "t": t, "on": 1 if float(e.get("loss") or 0) > 0 else 0}
        elif ev == "Send":
            has = any(s["k"] in ("DATA", "DATAFRAG") for s in e["subs"])
            hb = any(s["k"] in ("DATA", "DATAFRAG", "HB") for s in e["subs"])
            sent[e["id"]] = (e["from"], has)
            if not e.get("meta") and hb and "dupof" not in e:
                yield {"ev": "SendUser", "t": t, "from": e["from"], "to": e["to"], "meta": 0, "hasdata": 1}
        elif ev == "Deliver":
            fr = sent.get(e["id"])
            if fr and fr[1]:
                yield {"ev": "DeliverData", "t": t, "from": fr[0], "to": e["to"]}
        elif ev in ("PubStatus", "SubStatus"):
            i = e["w"] if ev == "PubStatus" else e["r"]
            if "err" in e:
                yield {"ev": ev, "t": t, "i": i, "err": 1, "cur": 0, "tot": 0, "curChg": 0, "totChg": 0, "n": 0}
            else:
                yield {"ev": ev, "t": t, "i": i, "err": 0, "cur": e["cur"], "tot": e["tot"], "curChg": e["curChg"], "totChg": e["totChg"], "n": e["n"]}
        elif ev == "Discovered":
            yield {"ev": "Discovered", "t": t, "net": e["net"], "knows": [int(x) for x in e["knows"]]}
        elif ev == "SimError":
            yield {"ev": "SimError", "t": 0, "err": e["err"]}
        else:
            continue


def normalise_worker(events):
    """Normalised events for Trace_Worker.tla (deadlines, worker sleeps)."""
    sent = {}
    writes = []          # instance of the n-th successful write (sn = n)
    readers = {}         # net -> reader index
    got = {}             # reader index -> set of sns received
    wl = rl = 0
    for e in events:
        ev = e["ev"]
        t = us(e.get("t", 0))
        if ev == "Reset":
            sent, writes, readers, got, wl, rl = {}, [], {}, {}, 0, 0
            yield {"ev": "Reset", "t": 0}
        elif ev == "CreateWriter":
            wl = 1 if e.get("listener") else wl
            yield {"ev": "CreateWriter", "t": t, "q": qos_norm(e.get("qos"))}
        elif ev == "CreateReader":
            readers[e["net"]] = e["r"]
            got[e["r"]] = set()
            rl = 1 if e.get("listener") else rl
            yield {"ev": "CreateReader", "t": t, "q": qos_norm(e.get("qos"))}
        elif ev == "WriteRet":
            if e["res"] == "Ok":
                writes.append(e["i"] if e["kind"] == "write" else -1)
            yield {"ev": "WriteRet", "t": t, "t0": us(e["t0"]), "i": e["i"], "kind": e["kind"], "res": e["res"]}
        elif ev == "Send":
            sent[e["id"]] = [s["sn"] for s in e["subs"] if s["k"] == "DATA"]
        elif ev == "Deliver":
            r = readers.get(e["to"])
            if r is not None:
                for sn in sent.get(e["id"], []):
                    if sn not in got[r] and 1 <= sn <= len(writes) and writes[sn - 1] >= 0:
                        got[r].add(sn)
                        yield {"ev": "Recv", "t": t, "r": r, "i": writes[sn - 1]}
        elif ev == "OfferedDeadlineStatus":
            if "err" in e:
                yield {"ev": ev, "t": t, "err": 1, "tot": 0, "chg": 0}
            else:
                yield {"ev": ev, "t": t, "err": 0, "tot": e["tot"], "chg": e["chg"]}
        elif ev == "Listener":
            yield {"ev": "Listener", "t": t, "kind": e["kind"], "idx": e["idx"], "tot": int(e.get("tot", 0)), "chg": int(e.get("chg", 0))}
        elif ev == "WaitCall":
            yield {"ev": "WaitCall", "t": t, "trigger": 1 if e.get("trigger") else 0}
        elif ev == "TriggerObs":
            yield {"ev": "TriggerObs", "t": t, "trigger": 1 if e.get("trigger") else 0}
        elif ev == "WaitRet":
            yield {"ev": "WaitRet", "t": t, "res": e["res"], "n": int(e.get("n", 0)), "trigger": 1 if e.get("trigger") else 0}
        elif ev == "Final":
            yield {"ev": "Final", "t": t, "wlistener": wl, "rlistener": rl}
        elif ev == "Sleep":
            yield {"ev": "Sleep", "t": t, "dns": max(-1, min(BIG, int(e["d"])))}
        elif ev == "SimError":
            yield {"ev": "SimError", "t": 0, "err": e["err"]}


def normalise_filter(events):
    """Normalised events for Trace_Filter.tla (C26).  String members are replaced by their rank in the
    byte-wise lexicographic order of all strings of the scenario, so that the specification compares integers."""
    events = list(events)
    # per scenario string ranks
    out = []
    k = 0
    while k < len(events):
        j = k + 1
        while j < len(events) and events[j]["ev"] != "Reset":
            j += 1
        chunk = events[k:j]
        names = set()
        for e in chunk:
            if e["ev"] == "WriteF":
                names.add(e["name"])
            elif e["ev"] == "TakeF":
                names.update(s["name"] for s in e["samples"])
            elif e["ev"] == "CftReaders" and e.get("field") == "name":
                names.add(e["params"][0])
                if e.get("params2"):
                    names.add(e["params2"][0])
        rank = {s: n for n, s in enumerate(sorted(names, key=lambda x: x.encode()))}
        field = None
        for e in chunk:
            ev = e["ev"]
            t = us(e.get("t", 0))
            if ev == "Reset":
                out.append({"ev": "Reset", "t": 0})
            elif ev == "CftReaders":
                field = e["field"]
                p = e["params"][0]
                p2 = e["params2"][0] if e.get("params2") else None
                out.append({"ev": "CftReaders", "t": t, "ok": 1 if e["res"] == "Ok" else 0, "op": e["op"],
                            "param": rank[p] if field == "name" else int(p),
                            "has2": 0 if p2 is None else 1, "param2": 0 if p2 is None else (rank[p2] if field == "name" else int(p2))})
            elif ev == "WriteF":
                f = {"val": e["val"], "id": e["id"], "name": rank.get(e["name"], -1)}
                out.append({"ev": "WriteF", "t": t, "seq": e["seq"], "ok": 1 if e["res"] == "Ok" else 0, "val": f["val"], "id": f["id"], "name": f["name"]})
            elif ev == "TakeF":
                out.append({"ev": "TakeF", "t": t, "which": e["which"], "final": 1 if e.get("final") else 0, "ok": 1 if e["res"] in ("Ok", "NoData") else 0,
                            "samples": [{"seq": s["seq"], "val": s["val"], "id": s["id"], "name": rank.get(s["name"], -1)} for s in e["samples"]],
                            "field": field or "val"})
            elif ev == "SimError":
                out.append({"ev": "SimError", "t": 0, "err": e["err"]})
        k = j
    return out


def normalise_adversary(events):
    """Normalised events for Trace_Adversary.tla (C06)."""
    for e in events:
        ev = e["ev"]
        t = us(e.get("t", 0))
        if ev == "Reset":
            yield {"ev": "Reset", "t": 0}
        elif ev == "Injected":
            yield {"ev": "Injected", "t": t, "len": int(e["len"]), "peak": min(BIG, int(e["peak"])), "wall_us": min(BIG, int(e["wall_us"]))}
        elif ev == "Probe":
            yield {"ev": "Probe", "t": t, "ok": 1 if e["ok"] else 0}
        elif ev == "SimError":
            yield {"ev": "SimError", "t": 0, "err": e["err"]}


def normalise_ownership(events):
    """Normalised events for Trace_Ownership.tla (C24 end to end): writers with strengths, the reader's deadline, write /
    unregister results with the time of the call's return, deletions of writers, takes (valid samples only)."""
    for e in events:
        ev = e["ev"]
        t = us(e.get("t", 0))
        if ev == "Reset":
            yield {"ev": "Reset", "t": 0}
        elif ev == "CreateWriter" and e.get("res") == "Ok":
            yield {"ev": "Writer", "t": t, "w": e["w"], "strength": int((e.get("qos") or {}).get("strength") or 0)}
        elif ev == "CreateReader" and e.get("res") == "Ok":
            dl = (e.get("qos") or {}).get("deadline_ms")
            yield {"ev": "Reader", "t": t, "deadline": -1 if dl is None or dl < 0 else int(dl) * 1000}
        elif ev == "WriteRet":
            yield {"ev": "Write", "t": t, "w": e["w"], "i": e["i"], "seq": e["seq"], "kind": e["kind"], "ok": 1 if e["res"] == "Ok" else 0}
        elif ev == "DeleteWriter":
            yield {"ev": "DelWriter", "t": t, "w": e["w"]}
        elif ev in ("Take", "Read"):
            yield {"ev": "Take", "t": t, "samples": [{"w": s["w"], "seq": s["seq"], "i": s["i"]} for s in e["samples"] if "seq" in s]}
        elif ev == "SimError":
            yield {"ev": "SimError", "t": 0, "err": e["err"]}


def normalise_hist(events):
    """Normalised events for Trace_Hist.tla (C04 with several writers): writes, wait_for_historical_data results, takes."""
    for e in events:
        ev = e["ev"]
        t = us(e.get("t", 0))
        if ev == "Reset":
            yield {"ev": "Reset", "t": 0}
        elif ev == "WriteRet":
            yield {"ev": "Write", "t": t, "w": e["w"], "seq": e["seq"], "ok": 1 if e["res"] == "Ok" and e["kind"] == "write" else 0}
        elif ev == "WaitHistRet":
            yield {"ev": "WaitHistRet", "t": t, "res": e["res"]}
        elif ev in ("Take", "Read"):
            yield {"ev": "Take", "t": t, "samples": [{"w": s["w"], "seq": s["seq"]} for s in e["samples"] if "seq" in s]}
        elif ev == "SimError":
            yield {"ev": "SimError", "t": 0, "err": e["err"]}
