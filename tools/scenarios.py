"""Scenario families for the simulation-bound checks. A scenario is plain JSON interpreted by harness/src/scen.rs."""
import itertools
import json
import random

REL = {"rel": "RELIABLE", "dur": "VOLATILE", "hist": 0}


def q(rel="RELIABLE", dur="VOLATILE", hist=0, **kw):
    d = {"rel": rel, "dur": dur, "hist": hist}
    d.update(kw)
    return d


def setup(wq, rqs, match=True):
    steps = [{"do": "participant"}]
    for _ in rqs:
        steps.append({"do": "participant"})
    steps.append({"do": "create_writer", "part": 0, "qos": wq})
    for k, rq in enumerate(rqs):
        steps.append({"do": "create_reader", "part": k + 1, "qos": rq})
    if match:
        steps.append({"do": "wait_match", "w": 0, "n": len(rqs)})
    return steps


def finish(nreaders, quiesce_ms=3000, wait_acks=True):
    steps = [{"do": "heal"}, {"do": "quiesce", "ms": quiesce_ms}]
    for r in range(nreaders):
        steps.append({"do": "take", "r": r})
    steps.append({"do": "final"})
    if wait_acks:
        steps.append({"do": "wait_acks", "w": 0, "ms": 2000})
    return steps


def writes(plan, gap_ms=0):
    out = []
    for (i, ln) in plan:
        out.append({"do": "write", "w": 0, "i": i, "len": ln})
        if gap_ms:
            out.append({"do": "sleep", "ms": gap_ms})
    return out


def ser(ln):
    """serialized payload size of KeyedData with ln data bytes (XCDR1, 4-byte encapsulation header)"""
    return 16 + ((ln + 3) // 4) * 4


def nfrags(ln, frag):
    return -(-ser(ln) // frag)


def rule(kind, action, sn=None, frag=None, nth=1, from_part=0, to_part=1, delay_ms=30):
    r = {"kind": kind, "action": action, "nth": nth, "from_part": from_part, "to_part": to_part, "delay_ms": delay_ms}
    if sn is not None:
        r["sn"] = sn
    if frag is not None:
        r["frag"] = frag
    return r


def message_ids(plan, frag):
    """identities of the first transmissions of a write plan: (kind, sn, frag)"""
    ids = []
    for sn, (_, ln) in enumerate(plan, start=1):
        k = nfrags(ln, frag)
        if k > 1:
            ids += [("DATAFRAG", sn, f) for f in range(1, k + 1)]
        else:
            ids.append(("DATA", sn, None))
    return ids


def fault_patterns(plan, frag, max_faults, actions=("drop", "dup", "delay"), with_control=True):
    """all patterns of <= max_faults faults on distinct first transmissions, plus faults on control traffic"""
    ids = message_ids(plan, frag)
    singles = [rule(k, a, sn=sn, frag=f) for (k, sn, f) in ids for a in actions]
    if with_control:
        singles += [rule("HB", "drop", nth=n) for n in (1, 2)]
        singles += [rule("ACKNACK", "drop", nth=n, from_part=1, to_part=0) for n in (1, 2)]
        singles += [rule("HB", "delay", nth=1, delay_ms=60)]
    pats = [[s] for s in singles]
    if max_faults >= 2:
        for a, b in itertools.combinations(singles, 2):
            if (a["kind"], a.get("sn"), a.get("frag"), a["nth"], a["from_part"]) == (b["kind"], b.get("sn"), b.get("frag"), b["nth"], b["from_part"]):
                continue
            pats.append([a, b])
    return pats


PLANS_SMALL = [
    [(1, 8), (1, 8), (1, 8)],
    [(1, 8), (2, 8), (1, 8)],
    [(1, 8), (1, 200), (1, 8)],      # fragmented sample between two small ones (frag 64 -> 4 fragments)
    [(1, 100), (2, 8)],
]


def delivery_scenarios(prop, tier, seed, rq, wqs, families=("rule", "rand"), frag=64):
    """C01 / C02 / C05 style: write plan + faults + heal + quiesce + take"""
    rng = random.Random(seed)
    out = []
    nrule = 0
    for wi, wq in enumerate(wqs):
        for pi, plan in enumerate(PLANS_SMALL):
            if "rule" in families:
                pats = fault_patterns(plan, frag, 2 if tier == "thorough" else 1)
                if tier == "quick":
                    # all single faults + a seeded sample of pairs
                    pairs = fault_patterns(plan, frag, 2)[len(pats):]
                    rng.shuffle(pairs)
                    pats = pats + pairs[:6]
                for fi, pat in enumerate(pats):
                    steps = setup(wq, [rq]) + [{"do": "rules", "rules": pat}] + writes(plan) + [{"do": "sleep", "ms": 400}] + finish(1)
                    out.append({"name": f"{prop}-rule-w{wi}-p{pi}-f{fi}", "family": "rule", "seed": seed, "frag": frag, "steps": steps})
                    nrule += 1
    # a peer that batches: the datagrams of a burst are merged into one RTPS message with several DATA / DATA_FRAG / HEARTBEAT submessages
    nb = 12 if tier == "quick" else 200
    for k in range(nb):
        wq = wqs[k % len(wqs)]
        plan = [(rng.choice([1, 1, 2, 3]), rng.choice([8, 8, 40, 100, 200])) for _ in range(rng.randint(2, 6))]
        steps = setup(wq, [rq]) + [{"do": "hold", "on": True}] + writes(plan) + [{"do": "sleep", "ms": 5}, {"do": "merge_held"}, {"do": "hold", "on": False}]
        if k % 3 == 2:
            # a second batch while the first one may still be repaired
            plan2 = [(rng.choice([1, 2]), 8) for _ in range(rng.randint(1, 3))]
            steps += [{"do": "sleep", "ms": rng.choice([1, 50])}, {"do": "hold", "on": True}] + writes(plan2) + [{"do": "sleep", "ms": 5}, {"do": "merge_held"}, {"do": "hold", "on": False}]
        steps += [{"do": "sleep", "ms": 300}] + finish(1)
        out.append({"name": f"{prop}-batched-{k}", "family": "batched", "seed": seed * 31 + k, "frag": rng.choice([64, 128, 1344]), "steps": steps})
    if "rand" in families:
        n = 60 if tier == "quick" else 1500
        for k in range(n):
            wq = wqs[k % len(wqs)]
            nw = rng.randint(2, 8)
            plan = [(rng.choice([1, 1, 2, 3]), rng.choice([8, 8, 40, 100, 200, 300])) for _ in range(nw)]
            fm = {"do": "faults", "loss": rng.choice([0.1, 0.3, 0.5]), "dup": rng.choice([0.0, 0.2, 0.4]),
                  "delay": rng.choice([0.0, 0.3, 0.6]), "max_delay_ms": rng.choice([5, 30, 120])}
            steps = setup(wq, [rq]) + [fm]
            for (i, ln) in plan:
                steps.append({"do": "write", "w": 0, "i": i, "len": ln})
                if rng.random() < 0.5:
                    steps.append({"do": "sleep", "ms": rng.choice([1, 10, 60, 250])})
                if rng.random() < 0.2:
                    steps.append({"do": "take", "r": 0})
            steps += [{"do": "sleep", "ms": rng.choice([50, 300])}] + finish(1)
            out.append({"name": f"{prop}-rand-{k}", "family": "rand", "seed": seed * 100003 + k, "frag": rng.choice([64, 64, 128]), "steps": steps})
    return out



def rich_scenarios(prop, tier, seed, n_quick=40, n_thorough=800):
    """one writer with random QoS, up to three readers (own participants) with random compatible QoS that join late, are
    deleted or fall silent; random write / dispose / unregister over three instances (small and fragmented samples), takes,
    faults switched on and off, partitions, batched bursts; every rule of Trace_Rtps applies to any such history"""
    rng = random.Random(seed * 977 + 13 + sum(ord(ch) for ch in prop) * 7919)
    out = []
    n = n_quick if tier == "quick" else n_thorough
    for k in range(n):
        wrel = rng.choice(["RELIABLE", "RELIABLE", "BEST_EFFORT"])
        wdur = rng.choice(["VOLATILE", "TRANSIENT_LOCAL"])
        depth = rng.choice([0, 0, 1, 2, 3])
        wq = q(rel=wrel, dur=wdur, hist=depth, max_blocking_ms=rng.choice([50, 200]))
        if rng.random() < 0.15:
            wq["lifespan_ms"] = rng.choice([150, 600])
        steps = [{"do": "participant"}, {"do": "create_writer", "part": 0, "qos": wq}]
        nparts = 1
        readers = []   # [index, alive]

        def new_reader():
            nonlocal nparts
            rq = q(rel="BEST_EFFORT" if wrel == "BEST_EFFORT" else rng.choice(["RELIABLE", "RELIABLE", "BEST_EFFORT"]),
                   dur="VOLATILE" if wdur == "VOLATILE" else rng.choice(["VOLATILE", "TRANSIENT_LOCAL"]),
                   hist=rng.choice([0, 0, 2]))
            steps.append({"do": "participant"})
            steps.append({"do": "create_reader", "part": nparts, "qos": rq})
            readers.append([len(readers), True])
            nparts += 1
            steps.append({"do": "sleep", "ms": rng.choice([300, 600])})

        if rng.random() < 0.7:
            new_reader()
        frag = rng.choice([64, 128, 1344])
        faults_on = False
        for j in range(rng.randint(6, 16)):
            op = rng.choice(["write", "write", "write", "write", "dispose", "unregister", "take", "sleep", "faults", "reader", "delreader", "burst", "partition"])
            live = [r for r in readers if r[1]]
            if op == "write":
                steps.append({"do": "write", "w": 0, "i": rng.randint(1, 3), "len": rng.choice([8, 8, 40, 100, 200, 300])})
            elif op in ("dispose", "unregister"):
                steps.append({"do": op, "w": 0, "i": rng.randint(1, 3), "len": 8})
            elif op == "take" and live:
                steps.append({"do": "take", "r": rng.choice(live)[0]})
            elif op == "sleep":
                steps.append({"do": "sleep", "ms": rng.choice([1, 20, 80, 300])})
            elif op == "faults":
                faults_on = not faults_on
                steps.append({"do": "faults", "loss": rng.choice([0.2, 0.4]) if faults_on else 0.0, "dup": rng.choice([0.0, 0.3]) if faults_on else 0.0,
                              "delay": rng.choice([0.0, 0.5]) if faults_on else 0.0, "max_delay_ms": rng.choice([10, 60])})
            elif op == "reader" and len(readers) < 3:
                new_reader()
            elif op == "delreader" and len(live) > 1:
                r = rng.choice(live)
                steps.append({"do": "delete_reader", "r": r[0]})
                r[1] = False
            elif op == "burst":
                steps.append({"do": "hold", "on": True})
                steps += [{"do": "write", "w": 0, "i": rng.randint(1, 2), "len": rng.choice([8, 100])} for _ in range(rng.randint(2, 4))]
                steps += [{"do": "sleep", "ms": 5}, {"do": "merge_held"}, {"do": "hold", "on": False}]
            elif op == "partition" and live and rng.random() < 0.5:
                steps.append({"do": "partition", "from_part": 0, "to_part": 1})
                steps.append({"do": "sleep", "ms": rng.choice([100, 400])})
                steps.append({"do": "heal"})
        steps += [{"do": "sleep", "ms": 200}, {"do": "heal"}, {"do": "quiesce", "ms": 3000}]
        for r in readers:
            if r[1]:
                steps.append({"do": "take", "r": r[0]})
        steps.append({"do": "final"})
        if wrel == "RELIABLE":
            steps.append({"do": "wait_acks", "w": 0, "ms": 2000})
        out.append({"name": f"{prop}-rich-{k}", "family": "rich", "seed": seed * 1009 + k, "frag": frag, "steps": steps})
    return out


def c01(tier, seed):
    wqs = [q(hist=0), q(hist=3)]
    return delivery_scenarios("C01", tier, seed, q(hist=0), wqs) + rich_scenarios("C01", tier, seed)


def c02_gap(tier, seed):
    """GAPs towards a best-effort reader: a TRANSIENT_LOCAL KEEP_LAST(1) writer whose history has holes (several instances) is
    joined late by a best-effort TRANSIENT_LOCAL reader: DATA 1, GAP 2..3, DATA 4, DATA 5 ...; the DATA in front of the gap is
    lost or late and a DATA behind it duplicated or delayed (one or two targeted faults)."""
    out = []
    # (the first two end with the sample right behind the hole, so that its duplicate arrives before anything else)
    shapes = [[3, 1, 1], [2, 3, 1, 1], [3, 1, 2, 1, 2], [3, 1, 2, 1, 2, 3], [1, 2, 3, 2, 3, 2]]
    for wi, wrel in enumerate(("RELIABLE", "BEST_EFFORT")):
        for si, shape in enumerate(shapes if tier == "thorough" else shapes[:3]):
            last = {}
            for sn, i in enumerate(shape, start=1):
                last[i] = sn
            kept = sorted(last.values())
            pats = [[]]
            for a in kept:
                for b in kept:
                    if b <= a:
                        continue
                    pats += [[rule("DATA", "drop", sn=a), rule("DATA", "dup", sn=b)], [rule("DATA", "delay", sn=a, delay_ms=40), rule("DATA", "dup", sn=b)],
                             [rule("DATA", "drop", sn=a), rule("DATA", "delay", sn=b, delay_ms=40)]]
            if tier == "quick":
                pats = pats[:8]
            for fi, pat in enumerate(pats):
                steps = [{"do": "participant"}, {"do": "participant"},
                         {"do": "create_writer", "part": 0, "qos": q(rel=wrel, dur="TRANSIENT_LOCAL", hist=1)}]
                steps += [{"do": "write", "w": 0, "i": i, "len": 8} for i in shape]
                steps += [{"do": "sleep", "ms": 50}, {"do": "rules", "rules": pat},
                          {"do": "create_reader", "part": 1, "qos": q(rel="BEST_EFFORT", dur="TRANSIENT_LOCAL", hist=0)},
                          {"do": "wait_match", "w": 0, "n": 1}, {"do": "sleep", "ms": 400}] + finish(1, wait_acks=False)
                out.append({"name": f"C02-gap-w{wi}-s{si}-f{fi}", "family": "gap", "seed": seed, "frag": 1344, "steps": steps})
    return out


def c02(tier, seed):
    wqs = [q(hist=0), q(rel="BEST_EFFORT", hist=0)]
    return delivery_scenarios("C02", tier, seed, q(rel="BEST_EFFORT", hist=0), wqs) + c02_gap(tier, seed) + rich_scenarios("C02", tier, seed)


def c05(tier, seed):
    """fragment sizes and payload sizes around multiples of the fragment size; fragment level faults"""
    rng = random.Random(seed)
    out = []
    frags = [8, 12, 64, 1344] if tier == "quick" else [8, 9, 12, 64, 100, 1344, 65000]
    for frag in frags:
        for k in ([2, 3] if tier == "quick" else [2, 3, 4, 5]):
            for delta in (-4, 0, 4):
                target = k * frag + delta
                if target < 20:
                    continue
                ln = max(0, target - 16)
                ln -= ln % 4
                for rel in ("RELIABLE", "BEST_EFFORT"):
                    plan = [(1, ln), (1, 8)]
                    n = nfrags(ln, frag)
                    pats = [[]]
                    if n <= 6:
                        pats += [[rule("DATAFRAG", a, sn=1, frag=f)] for f in range(1, n + 1) for a in ("drop", "dup", "delay")]
                    else:
                        fs = sorted(set([1, 2, n // 2, n - 1, n]))
                        pats += [[rule("DATAFRAG", a, sn=1, frag=f)] for f in fs for a in ("drop", "delay")]
                    if tier == "quick":
                        rng.shuffle(pats)
                        pats = pats[:5]
                    for fi, pat in enumerate(pats):
                        steps = setup(q(rel=rel), [q(rel=rel)]) + [{"do": "rules", "rules": pat}] + writes(plan) + [{"do": "sleep", "ms": 300}] + finish(1)
                        out.append({"name": f"C05-f{frag}-k{k}-d{delta}-{rel[:3]}-{fi}", "family": "frag", "seed": seed, "frag": frag, "steps": steps})
    # fragments of two samples interleaved by delays, random
    n = 30 if tier == "quick" else 600
    for j in range(n):
        frag = rng.choice([16, 64, 200])
        plan = [(rng.choice([1, 2]), rng.choice([frag * 2, frag * 3 + 4, frag * 5])) for _ in range(rng.randint(2, 4))]
        fm = {"do": "faults", "loss": rng.choice([0.0, 0.2, 0.4]), "dup": rng.choice([0.0, 0.3]), "delay": 0.6, "max_delay_ms": rng.choice([5, 40])}
        steps = setup(q(), [q()]) + [fm] + writes(plan, gap_ms=rng.choice([0, 0, 20])) + [{"do": "sleep", "ms": 300}] + finish(1)
        out.append({"name": f"C05-rand-{j}", "family": "fragrand", "seed": seed * 7919 + j, "frag": frag, "steps": steps})
    return out + rich_scenarios("C05", tier, seed, n_quick=25, n_thorough=400)


# ---------------------------------------------------------------------------------------------
def c03(tier, seed):
    """wait_for_acknowledgments: soundness under partitions / loss, completion after heal, reader deletion, silent departure"""
    rng = random.Random(seed)
    out = []
    n = 40 if tier == "quick" else 600
    for k in range(n):
        nr = rng.choice([1, 2, 2, 3])
        plan = [(rng.choice([1, 2]), rng.choice([8, 8, 200])) for _ in range(rng.randint(1, 4))]
        steps = setup(q(hist=0), [q(hist=0)] * nr)
        victim = rng.randrange(nr)
        mode = rng.choice(["partition", "loss", "ackloss", "delete", "silence"])
        if mode == "partition":
            steps.append({"do": "partition", "from_part": 0, "to_part": victim + 1})
        elif mode == "loss":
            steps.append({"do": "faults", "loss": 0.5, "dup": 0.2, "delay": 0.3, "max_delay_ms": 40})
        elif mode == "ackloss":
            steps.append({"do": "partition", "from_part": victim + 1, "to_part": 0})
        elif mode in ("delete", "silence"):
            steps.append({"do": "partition", "from_part": 0, "to_part": victim + 1})
        steps += writes(plan)
        if mode == "delete":
            # the unreachable reader is deleted while the wait is parked
            steps.append({"do": "wait_acks", "w": 0, "ms": 3000, "expect_ok": True,
                          "during": [{"at_ms": rng.choice([0, 120, 400]), "do": "heal_meta_only"},
                                     {"at_ms": rng.choice([130, 500]), "do": "delete_reader", "r": victim}]})
        elif mode == "silence":
            steps.append({"do": "silence_participant", "part": victim + 1})
            steps.append({"do": "wait_acks", "w": 0, "ms": 130000, "expect_ok": True})
        else:
            steps.append({"do": "wait_acks", "w": 0, "ms": rng.choice([100, 600])})
        steps += finish(nr if mode not in ("silence",) else 0, wait_acks=(mode != "silence"))
        if mode == "silence":
            steps = [s for s in steps if s.get("do") != "final"]
        out.append({"name": f"C03-{mode}-{k}", "family": mode, "seed": seed * 31 + k, "frag": 64, "steps": steps,
                    "max_steps": 6000000})
    # the LAST sequence number handed out is not in the history (a back-dated write that is expired when written) while an
    # older sample is still there and not delivered: the wait has to wait for the older one
    for k, (life, nback, mid) in enumerate([(30000, 1, False), (30000, 2, False), (5000, 1, True)]):
        steps = setup(q(hist=0, lifespan_ms=life), [q(hist=0)]) + [{"do": "sleep", "ms": life + 1500}, {"do": "write", "w": 0, "i": 1, "len": 8},
                                                                 {"do": "sleep", "ms": 300}, {"do": "take", "r": 0},
                                                                 {"do": "partition", "from_part": 0, "to_part": 1},
                                                                 {"do": "write", "w": 0, "i": 1, "len": 8}]
        if mid:
            steps += [{"do": "write", "w": 0, "i": 2, "len": 8}]
        steps += [{"do": "write", "w": 0, "i": 1, "len": 8, "ts_ms": 100 * (j + 1)} for j in range(nback)]
        steps += [{"do": "wait_acks", "w": 0, "ms": 600}] + finish(1)
        out.append({"name": f"C03-expiredlast-{k}", "family": "expiredlast", "seed": seed * 31 + k, "frag": 1344, "steps": steps, "max_steps": 6000000})
    return out + rich_scenarios("C03", tier, seed, n_quick=25, n_thorough=400)


def c04(tier, seed):
    """durability: late joiners, history depth, loss on catch-up traffic, match boundary"""
    rng = random.Random(seed)
    out = []
    n = 60 if tier == "quick" else 800
    for k in range(n):
        depth = rng.choice([0, 0, 1, 2, 3])
        wdur = rng.choice(["TRANSIENT_LOCAL", "TRANSIENT_LOCAL", "VOLATILE"])
        rdur = "VOLATILE" if wdur == "VOLATILE" else rng.choice(["TRANSIENT_LOCAL", "TRANSIENT_LOCAL", "VOLATILE"])
        wq = q(dur=wdur, hist=depth)
        rq = q(dur=rdur, hist=0)
        pre = [(rng.choice([1, 2, 3]), rng.choice([8, 8, 150])) for _ in range(rng.randint(1, 6))]
        steps = [{"do": "participant"}, {"do": "participant"}, {"do": "create_writer", "part": 0, "qos": wq}]
        early = rng.random() < 0.3
        if early:
            # a first reader keeps the writer busy (acks let KEEP_LAST writes proceed)
            steps += [{"do": "participant"}, {"do": "create_reader", "part": 2, "qos": q(dur="VOLATILE")},
                      {"do": "wait_match", "w": 0, "n": 1}]
        steps += writes(pre)
        if rng.random() < 0.5:
            steps.append({"do": "faults", "loss": rng.choice([0.2, 0.4]), "dup": 0.2, "delay": 0.3, "max_delay_ms": 30})
        steps.append({"do": "create_reader", "part": 1, "qos": rq})
        boundary = rng.random() < 0.5
        if boundary:
            # writes racing with the match
            steps += writes([(1, 8)] * rng.randint(1, 2))
        steps.append({"do": "wait_match", "w": 0, "n": 2 if early else 1})
        steps += writes([(rng.choice([1, 2]), 8) for _ in range(rng.randint(0, 2))])
        steps += [{"do": "sleep", "ms": 200}, {"do": "heal"}, {"do": "quiesce", "ms": 3000}]
        ri = 1 if early else 0
        if rdur == "TRANSIENT_LOCAL":
            steps.append({"do": "wait_hist", "r": ri, "ms": 2000, "expect_ok": True})
        if early:
            steps.append({"do": "take", "r": 0})
        steps += [{"do": "take", "r": ri}, {"do": "final"}]
        out.append({"name": f"C04-{k}", "family": "late", "seed": seed * 37 + k, "frag": 64, "steps": steps})
    return out + rich_scenarios("C04", tier, seed, n_quick=25, n_thorough=400)


def c27(tier, seed):
    """reliable KEEP_LAST writer: block instead of dropping unacknowledged samples"""
    rng = random.Random(seed)
    out = []
    n = 50 if tier == "quick" else 700
    for k in range(n):
        depth = rng.choice([1, 1, 2, 3])
        blocking = rng.choice([0, 30, 100, 100, 1000])
        wq = q(hist=depth, max_blocking_ms=blocking)
        steps = setup(wq, [q(hist=0)])
        mode = rng.choice(["noack", "slowack", "loss", "healmid"])
        if mode == "noack":
            steps.append({"do": "partition", "from_part": 1, "to_part": 0})
        elif mode == "slowack":
            steps.append({"do": "faults", "loss": 0.0, "dup": 0.0, "delay": 1.0, "max_delay_ms": rng.choice([20, 80, 300])})
        elif mode == "loss":
            steps.append({"do": "faults", "loss": 0.5, "dup": 0.0, "delay": 0.3, "max_delay_ms": 30})
        elif mode == "healmid":
            steps.append({"do": "partition", "from_part": 1, "to_part": 0})
        nw = depth + rng.randint(1, 3)
        for j in range(nw):
            st = {"do": "write", "w": 0, "i": rng.choice([1, 1, 2]), "len": 8}
            if mode == "healmid" and j == depth:
                st["during"] = [{"at_ms": rng.choice([5, 40, 90]), "do": "heal"}]
            steps.append(st)
            if rng.random() < 0.3:
                steps.append({"do": "sleep", "ms": rng.choice([1, 20, 60])})
        steps += finish(1)
        if k % 5 == 4:
            # a second reliable reader joins after the first one acknowledged everything and stays silent
            dur = rng.choice(["TRANSIENT_LOCAL", "VOLATILE"])
            wq2 = q(dur=dur, hist=depth, max_blocking_ms=blocking)
            steps = setup(wq2, [q(dur=dur, hist=0)])
            steps += [{"do": "write", "w": 0, "i": 1, "len": 8} for _ in range(depth)]
            steps += [{"do": "sleep", "ms": 300}, {"do": "participant"},
                      {"do": "partition", "from_part": 2, "to_part": 0, "user_only": True},
                      {"do": "create_reader", "part": 2, "qos": q(dur=dur, hist=0)},
                      {"do": "wait_match", "w": 0, "n": 2}]
            steps += [{"do": "write", "w": 0, "i": 1, "len": 8} for _ in range(rng.randint(1, 3))]
            steps += finish(2)
            mode = "latejoin"
        out.append({"name": f"C27-{mode}-{k}", "family": mode, "seed": seed * 41 + k, "frag": 64, "steps": steps})
    # instance operations between the writes: unregister / dispose of an instance whose samples are still unacknowledged in the
    # history, then write the instance again (the KEEP_LAST bookkeeping must survive the unregistration)
    ni = 12 if tier == "quick" else 120
    for k in range(ni):
        depth = rng.choice([1, 1, 2])
        blocking = rng.choice([30, 100])
        steps = setup(q(hist=depth, max_blocking_ms=blocking), [q(hist=0)])
        steps.append({"do": "partition", "from_part": 1, "to_part": 0})
        steps += [{"do": "write", "w": 0, "i": 1, "len": 8} for _ in range(depth)]
        steps.append({"do": rng.choice(["unregister", "unregister", "dispose"]), "w": 0, "i": 1, "len": 8})
        steps += [{"do": "write", "w": 0, "i": 1, "len": 8} for _ in range(rng.randint(1, 3))]
        if k % 2:
            steps += [{"do": "unregister", "w": 0, "i": 1, "len": 8}, {"do": "write", "w": 0, "i": 1, "len": 8}]
        steps += finish(1)
        out.append({"name": f"C27-instops-{k}", "family": "instops", "seed": seed * 43 + k, "frag": 64, "steps": steps})
    return out + rich_scenarios("C27", tier, seed, n_quick=25, n_thorough=400)


def c29(tier, seed):
    """lifespan: expired samples are never (re)transmitted"""
    rng = random.Random(seed)
    out = []
    n = 50 if tier == "quick" else 700
    for k in range(n):
        life = rng.choice([10, 60, 60, 200, 1000])
        dur = rng.choice(["VOLATILE", "TRANSIENT_LOCAL"])
        wq = q(dur=dur, hist=0, lifespan_ms=life)
        late = dur == "TRANSIENT_LOCAL" and rng.random() < 0.5
        steps = [{"do": "participant"}, {"do": "participant"}]
        decoy = rng.random() < 0.5
        if decoy:
            # another writer of the same participant (default, infinite lifespan) created before or after
            before = rng.random() < 0.6
            if before:
                steps.append({"do": "create_decoy_writer", "part": 0, "qos": q(), "write": rng.random() < 0.5})
        steps.append({"do": "create_writer", "part": 0, "qos": wq})
        if decoy and not before:
            steps.append({"do": "create_decoy_writer", "part": 0, "qos": q(), "write": True})
        if not late:
            steps += [{"do": "create_reader", "part": 1, "qos": q(dur=dur)}, {"do": "wait_match", "w": 0, "n": 1}]
        mode = rng.choice(["partition", "delay", "loss", "none"])
        if mode == "partition":
            steps.append({"do": "partition", "from_part": 0, "to_part": 1})
        elif mode == "delay":
            steps.append({"do": "faults", "loss": 0.0, "dup": 0.0, "delay": 1.0, "max_delay_ms": rng.choice([5, 50, 300])})
        elif mode == "loss":
            steps.append({"do": "faults", "loss": 0.5, "dup": 0.2, "delay": 0.0})
        t = 5
        for j in range(rng.randint(1, 4)):
            st = {"do": "write", "w": 0, "i": rng.choice([1, 2]), "len": rng.choice([8, 8, 150])}
            if rng.random() < 0.3:
                st["ts_ms"] = max(0, t - rng.choice([5, life // 2, life, life + 5]))   # back-dated source timestamp
            steps.append(st)
            dt = rng.choice([1, life // 2, life, life + 20])
            steps.append({"do": "sleep", "ms": dt})
            t += dt
        if late:
            steps += [{"do": "create_reader", "part": 1, "qos": q(dur=dur)}, {"do": "wait_match", "w": 0, "n": 1}]
        steps += [{"do": "heal"}, {"do": "quiesce", "ms": 1500}, {"do": "take", "r": 0}, {"do": "final"}]
        out.append({"name": f"C29-{mode}-{k}", "family": mode, "seed": seed * 43 + k, "frag": 64, "steps": steps})
    # back-dated writes that are expired when written, after a recent write of the SAME instance (the writer's bookkeeping of
    # the last write time of the instance must not stand in for the sample's own timestamp), of another instance, or alone
    for k, (rel, same, first) in enumerate([("RELIABLE", True, True), ("BEST_EFFORT", True, True), ("RELIABLE", False, True), ("RELIABLE", True, False)]):
        steps = [{"do": "participant"}, {"do": "participant"},
                 {"do": "create_writer", "part": 0, "qos": q(rel=rel, lifespan_ms=5000)},
                 {"do": "create_reader", "part": 1, "qos": q(rel=rel)}, {"do": "wait_match", "w": 0, "n": 1},
                 {"do": "sleep", "ms": 6500}]
        if first:
            steps += [{"do": "write", "w": 0, "i": 1, "len": 8}, {"do": "sleep", "ms": 20}]
        steps += [{"do": "write", "w": 0, "i": 1 if same else 2, "len": 8, "ts_ms": 100}, {"do": "sleep", "ms": 20},
                  {"do": "write", "w": 0, "i": 1, "len": 8}, {"do": "sleep", "ms": 20},
                  {"do": "write", "w": 0, "i": 1 if same else 2, "len": 8, "ts_ms": 200},
                  {"do": "quiesce", "ms": 1000}, {"do": "take", "r": 0}, {"do": "final"}]
        out.append({"name": f"C29-backdated-{k}", "family": "backdated", "seed": seed * 47 + k, "frag": 1344, "steps": steps})
    return out + rich_scenarios("C29", tier, seed, n_quick=25, n_thorough=400)


# ---------------------------------------------------------------------------------------------
def c16(tier, seed):
    """matched-status counts under remote endpoint creation, QoS update, deletion, participant departure"""
    rng = random.Random(seed)
    out = []
    n = 40 if tier == "quick" else 500
    for k in range(n):
        nparts = rng.choice([2, 3])
        nwriters = rng.choice([1, 1, 2])
        steps = [{"do": "participant"} for _ in range(nparts)]
        steps += [{"do": "create_writer", "part": 0, "qos": q(rel=rng.choice(["RELIABLE", "RELIABLE", "BEST_EFFORT"]), deadline_ms=rng.choice([None, 2000]))}
                  for _ in range(nwriters)]
        readers = []      # (index, part)
        silenced = False
        for j in range(rng.randint(3, 8)):
            live = [r for r in readers if r[2]]
            op = rng.choice(["create", "create", "delete", "qos", "status", "status", "delpart", "silence"])
            if op == "create" or not readers:
                part = rng.randrange(1, nparts)
                rq = q(rel=rng.choice(["RELIABLE", "BEST_EFFORT"]), deadline_ms=rng.choice([None, None, 1000, 5000]))
                steps.append({"do": "create_reader", "part": part, "qos": rq})
                readers.append([len(readers), part, True, rq])
            elif op == "delete" and live:
                r = rng.choice(live)
                steps.append({"do": "delete_reader", "r": r[0]})
                r[2] = False
            elif op == "qos" and live:
                r = rng.choice(live)
                nq = dict(r[3])
                nq["deadline_ms"] = rng.choice([None, 1000, 5000])   # deadline is changeable; may become (in)compatible
                r[3] = nq
                steps.append({"do": "set_reader_qos", "r": r[0], "qos": nq})
            elif op == "delpart" and nparts == 3 and any(r[1] == 2 and r[2] for r in readers):
                steps.append({"do": "delete_participant", "part": 2})
                for r in readers:
                    if r[1] == 2:
                        r[2] = False
            elif op == "silence" and nparts == 3 and not silenced and tier == "thorough" or (op == "silence" and k % 7 == 0 and nparts == 3 and not silenced):
                steps.append({"do": "silence_participant", "part": 2})
                steps.append({"do": "sleep", "ms": 101500})
                silenced = True
                for r in readers:
                    if r[1] == 2:
                        r[2] = False
            steps.append({"do": "sleep", "ms": 1200})
            for w in range(nwriters):
                if rng.random() < 0.6:
                    steps.append({"do": "pub_status", "w": w})
            for r in readers:
                if r[2] and rng.random() < 0.4:
                    steps.append({"do": "sub_status", "r": r[0]})
            if rng.random() < 0.3:
                steps.append({"do": "write", "w": 0, "i": 1, "len": 8})
        steps.append({"do": "sleep", "ms": 1500})
        for w in range(nwriters):
            steps.append({"do": "pub_status", "w": w})
        out.append({"name": f"C16-{k}", "family": "hist", "seed": seed * 47 + k, "frag": 1344, "steps": steps, "max_steps": 8000000})
    # deterministic families (independent of the seed)
    # departure: the participant of the matched remote endpoint falls silent; after its lease both the matched list and the
    # status of the local writer / reader must show the loss
    # (the departing participant has one, two or three matched endpoints; it falls silent or is ignored)
    for rel, nrem, how in (("RELIABLE", 1, "silence"), ("BEST_EFFORT", 1, "silence"), ("RELIABLE", 2, "silence"), ("RELIABLE", 3, "silence"),
                           ("RELIABLE", 2, "ignore"), ("BEST_EFFORT", 3, "ignore"), ("RELIABLE", 1, "ignore")):
        for local in ("writer", "reader"):
            steps = [{"do": "participant"}, {"do": "participant"}, {"do": "participant"}]
            if local == "writer":
                steps += [{"do": "create_writer", "part": 0, "qos": q(rel=rel)}] + [{"do": "create_reader", "part": 2, "qos": q(rel=rel)} for _ in range(nrem)]
                steps += [{"do": "create_reader", "part": 1, "qos": q(rel=rel)}]
            else:
                steps += [{"do": "create_writer", "part": 2, "qos": q(rel=rel)}, {"do": "create_reader", "part": 0, "qos": q(rel=rel)}]
                steps += [{"do": "create_writer", "part": 2, "qos": q(rel=rel)} for _ in range(nrem - 1)]
                steps += [{"do": "create_writer", "part": 1, "qos": q(rel=rel)}]
            obs = [{"do": "pub_status", "w": 0}] if local == "writer" else [{"do": "sub_status", "r": 0}]
            if how == "silence":
                steps += [{"do": "sleep", "ms": 1200}] + obs + [{"do": "silence_participant", "part": 2}, {"do": "sleep", "ms": 101500}, {"do": "sleep", "ms": 1200}] + obs
            else:
                steps += [{"do": "sleep", "ms": 1200}] + obs + [{"do": "ignore_participant", "part": 0, "target": 2}, {"do": "sleep", "ms": 1200}] + obs
            steps += [{"do": "sleep", "ms": 1500}] + obs
            out.append({"name": f"C16-departure-{local}-{rel[:3]}-{nrem}-{how}", "family": "departure", "seed": 1, "frag": 1344, "steps": steps, "max_steps": 8000000})
    # lossy: the same kind of random histories while the discovery traffic is lossy, duplicated and reordered; only the final
    # matched sets (after heal and a settle time) are determined by the history
    nl = 15 if tier == "quick" else 200
    base = [x for x in out if x["family"] == "hist"]
    for k in range(min(nl, len(base))):
        d = json.loads(json.dumps(base[k]))
        st = [x for x in d["steps"] if x["do"] not in ("pub_status", "sub_status")]
        npart = sum(1 for x in st if x["do"] == "participant")
        st.insert(npart, {"do": "meta_faults", "loss": rng.choice([0.3, 0.5]), "dup": 0.2, "delay": 0.4, "max_delay_ms": rng.choice([50, 400])})
        nw = sum(1 for x in st if x["do"] == "create_writer")
        nr = sum(1 for x in st if x["do"] == "create_reader")
        dead = {x["r"] for x in st if x["do"] == "delete_reader"}
        st += [{"do": "heal"}, {"do": "sleep", "ms": 8000}] + [{"do": "pub_status", "w": w} for w in range(nw)]
        if any(x["do"] == "delete_participant" for x in st):
            # a lost deletion announcement is only repaired by the lease
            st += [{"do": "sleep", "ms": 103000}] + [{"do": "pub_status", "w": w} for w in range(nw)]
        d["steps"] = st
        d["name"] = base[k]["name"] + "-lossy"
        d["family"] = "lossy"
        out.append(d)
    # requalify: every history of three deadline values of one remote reader against a writer offering 2 s
    dls = [None, 1000, 5000]
    for a in dls:
        for b in dls:
            for c in dls:
                if a == b or b == c:
                    continue
                steps = [{"do": "participant"}, {"do": "participant"}, {"do": "create_writer", "part": 0, "qos": q(deadline_ms=2000)},
                         {"do": "create_reader", "part": 1, "qos": q(deadline_ms=a)}, {"do": "sleep", "ms": 1200}, {"do": "pub_status", "w": 0}, {"do": "sub_status", "r": 0},
                         {"do": "set_reader_qos", "r": 0, "qos": q(deadline_ms=b)}, {"do": "sleep", "ms": 1200}, {"do": "pub_status", "w": 0}, {"do": "sub_status", "r": 0},
                         {"do": "set_reader_qos", "r": 0, "qos": q(deadline_ms=c)}, {"do": "sleep", "ms": 1200}, {"do": "pub_status", "w": 0}, {"do": "sub_status", "r": 0},
                         {"do": "sleep", "ms": 1500}, {"do": "pub_status", "w": 0}]
                out.append({"name": f"C16-requalify-{a}-{b}-{c}", "family": "requalify", "seed": 1, "frag": 1344, "steps": steps, "max_steps": 8000000})
    return out


def c17(tier, seed):
    """participant discovery, domain/tag isolation, lease expiry window, rediscovery, ignore"""
    rng = random.Random(seed)
    out = []
    n = 24 if tier == "quick" else 300
    for k in range(n):
        mode = ["isolation", "lease", "rediscover", "ignore", "loss"][k % 5]
        steps = []
        if mode == "isolation":
            combos = [(0, None), (0, None), (rng.choice([1, 2]), None), (0, "x"), (0, "x"), (1, "x")]
            rng.shuffle(combos)
            for (d, tag) in combos[:rng.randint(3, 5)]:
                st = {"do": "participant", "domain": d}
                if tag:
                    st["tag"] = tag
                steps.append(st)
            nparts = len(steps)
            steps.append({"do": "sleep", "ms": rng.choice([300, 6000])})
            steps += [{"do": "discovered", "part": p} for p in range(nparts)]
        elif mode in ("lease", "rediscover"):
            steps = [{"do": "participant"}, {"do": "participant"}, {"do": "participant"}, {"do": "sleep", "ms": rng.choice([300, 2300, 4800])}]
            steps += [{"do": "discovered", "part": p} for p in range(3)]
            steps.append({"do": "silence_participant", "part": 2})
            # still there before the lease expired (the last data was received at most one announcement period before)
            steps.append({"do": "sleep", "ms": rng.choice([1000, 50000, 93000])})
            steps += [{"do": "discovered", "part": 0}, {"do": "discovered", "part": 2}]
            steps.append({"do": "sleep", "ms": 101200})
            steps += [{"do": "discovered", "part": 0}, {"do": "discovered", "part": 1}, {"do": "discovered", "part": 2}]
            if mode == "rediscover":
                steps.append({"do": "unsilence"})
                steps.append({"do": "sleep", "ms": 6500})
                steps += [{"do": "discovered", "part": p} for p in range(3)]
        elif mode == "ignore":
            steps = [{"do": "participant"}, {"do": "participant"}, {"do": "participant"}, {"do": "sleep", "ms": 300},
                     {"do": "ignore_participant", "part": 0, "target": 1}, {"do": "sleep", "ms": rng.choice([200, 6000, 11000])}]
            steps += [{"do": "discovered", "part": p} for p in range(3)]
        else:
            steps = [{"do": "meta_faults", "loss": rng.choice([0.3, 0.6, 0.8]), "dup": 0.2, "delay": 0.3, "max_delay_ms": 200},
                     {"do": "participant"}, {"do": "participant"}, {"do": "participant", "domain": 3}, {"do": "sleep", "ms": rng.choice([1000, 20000])},
                     {"do": "heal"}, {"do": "sleep", "ms": 6500}]
            steps += [{"do": "discovered", "part": p} for p in range(3)]
        out.append({"name": f"C17-{mode}-{k}", "family": mode, "seed": seed * 53 + k, "frag": 1344, "steps": steps, "log_meta": True,
                    "max_steps": 12000000})
    # an ignored participant goes away while its announcements are duplicated and reordered: an alive announcement that
    # arrives after the unregister one must not bring the ignored participant back
    ni = 10 if tier == "quick" else 80
    for k in range(ni):
        steps = [{"do": "participant"}, {"do": "participant"}, {"do": "participant"}, {"do": "sleep", "ms": 300},
                 {"do": "ignore_participant", "part": 0, "target": 1}, {"do": "sleep", "ms": 200}, {"do": "discovered", "part": 0},
                 {"do": "meta_faults", "loss": 0.0, "dup": rng.choice([0.3, 0.6]), "delay": 0.9, "max_delay_ms": rng.choice([300, 1500, 4000])},
                 {"do": "participant"},                       # everybody announces itself again to the newcomer
                 {"do": "sleep", "ms": rng.choice([1, 30, 200])},
                 {"do": "delete_participant", "part": 1},
                 {"do": "sleep", "ms": 6000}, {"do": "discovered", "part": 0}, {"do": "discovered", "part": 2},
                 {"do": "heal"}, {"do": "sleep", "ms": 6500}, {"do": "discovered", "part": 0}]
        out.append({"name": f"C17-ignorereorder-{k}", "family": "ignorereorder", "seed": seed * 57 + k, "frag": 1344, "steps": steps, "log_meta": True,
                    "max_steps": 12000000})
    # peers that do not announce their domain id (the parameter is optional on the wire; the simulated network rewrites it into
    # padding in every datagram): same domain, the tag alone decides
    for k, tags in enumerate([[None, None, "x"], ["x", "y", "x"], [None, "x", "x", "y", None], ["x", None]]):
        steps = []
        for tag in tags:
            st = {"do": "participant", "domain": 0}
            if tag:
                st["tag"] = tag
            steps.append(st)
        steps.append({"do": "sleep", "ms": 6000 if k % 2 else 400})
        steps += [{"do": "discovered", "part": p} for p in range(len(tags))]
        out.append({"name": f"C17-nodomainid-{k}", "family": "nodomainid", "seed": seed * 59 + k, "frag": 1344, "steps": steps, "log_meta": True,
                    "strip_domain_id": True, "max_steps": 12000000})
    return out


# ---------------------------------------------------------------------------------------------
def c30(tier, seed):
    """deadline missed counts: write timing patterns relative to the deadline period, 1-2 instances"""
    rng = random.Random(seed)
    out = []
    n = 40 if tier == "quick" else 600
    for k in range(n):
        D = rng.choice([100, 300, 1000]) if k % 5 else 20     # 20 ms: shorter than the worker period, always overdue
        use_listener = k % 2 == 0
        wstep = {"do": "create_writer", "part": 0, "qos": q(deadline_ms=D)}
        rstep = {"do": "create_reader", "part": 1, "qos": q(deadline_ms=D)}
        if use_listener:
            wstep["listener"] = ["OfferedDeadlineMissed"]
        rstep["listener"] = ["RequestedDeadlineMissed"]
        steps = [{"do": "participant"}, {"do": "participant"}, wstep, rstep, {"do": "wait_match", "w": 0, "n": 1}]
        ninst = rng.choice([1, 2, 2])
        for j in range(rng.randint(2, 7)):
            inst = rng.randint(1, ninst)
            same_time = rng.random() < 0.25 and ninst == 2
            steps.append({"do": "write", "w": 0, "i": inst, "len": 8})
            if same_time:
                steps.append({"do": "write", "w": 0, "i": 3 - inst, "len": 8})
            gap = int(D * rng.choice([0.3, 0.6, 0.9, 1.5, 2.2, 3.7]))
            steps.append({"do": "sleep", "ms": gap})
            if not use_listener and rng.random() < 0.6:
                steps.append({"do": "sleep", "ms": 60})
                steps.append({"do": "offered_deadline_status", "w": 0})
        steps.append({"do": "sleep", "ms": int(D * rng.choice([0.5, 1.2, 2.5])) + 60})
        if not use_listener:
            steps.append({"do": "offered_deadline_status", "w": 0})
        steps.append({"do": "final"})
        out.append({"name": f"C30-{k}", "family": "timing", "seed": seed * 59 + k, "frag": 1344, "steps": steps})
    # writes that are refused (KEEP_ALL with exhausted resource limits) or blocked do not publish a sample, so they must not
    # postpone the offered deadline; rejected / time-filtered receptions must not postpone the requested deadline
    nr = 10 if tier == "quick" else 100
    for k in range(nr):
        D = rng.choice([100, 300])
        limit = rng.choice([{"max_samples_per_instance": 1}, {"max_samples": 1}, {"max_samples_per_instance": 2}])
        wstep = {"do": "create_writer", "part": 0, "qos": q(hist=0, deadline_ms=D, **limit)}
        rstep = {"do": "create_reader", "part": 1, "qos": q(hist=0, deadline_ms=D)}
        if k % 2 == 0:
            wstep["listener"] = ["OfferedDeadlineMissed"]
        steps = [{"do": "participant"}, {"do": "participant"}, wstep, rstep, {"do": "wait_match", "w": 0, "n": 1}]
        for j in range(rng.randint(4, 7)):
            steps.append({"do": "write", "w": 0, "i": 1, "len": 8})      # the first one or two are stored, the others refused
            steps.append({"do": "sleep", "ms": int(D * rng.choice([0.4, 0.6, 0.8]))})
        steps.append({"do": "sleep", "ms": int(D * 2.5) + 60})
        if k % 2:
            steps.append({"do": "offered_deadline_status", "w": 0})
        steps.append({"do": "final"})
        out.append({"name": f"C30-refused-{k}", "family": "refused", "seed": seed * 61 + k, "frag": 1344, "steps": steps})
    # instance operations between writes that keep arriving within the period: unregister, register_instance, dispose and
    # writing on must not produce a miss (no instance is silent for a period) - the writer keeps one deadline clock per instance
    for k, ops in enumerate([["unregister", "register"], ["unregister"], ["dispose"], ["register"], ["unregister", "register", "unregister", "register"]]):
        D = 1000
        wstep = {"do": "create_writer", "part": 0, "qos": q(hist=0, deadline_ms=D), "listener": ["OfferedDeadlineMissed"]}
        rstep = {"do": "create_reader", "part": 1, "qos": q(hist=0, deadline_ms=D)}
        steps = [{"do": "participant"}, {"do": "participant"}, wstep, rstep, {"do": "wait_match", "w": 0, "n": 1},
                 {"do": "write", "w": 0, "i": 1, "len": 8}, {"do": "sleep", "ms": 100}]
        for o in ops:
            steps += [{"do": o, "w": 0, "i": 1, "len": 8}, {"do": "sleep", "ms": 50}]
        for j in range(30):
            steps += [{"do": "write", "w": 0, "i": 1, "len": 8}, {"do": "sleep", "ms": 100}]
        steps += [{"do": "offered_deadline_status", "w": 0}, {"do": "final"}]
        out.append({"name": f"C30-instops-{k}", "family": "instops", "seed": seed * 67 + k, "frag": 1344, "steps": steps})
    return out


def c31(tier, seed):
    """every timer request of the worker is within [0, 50 ms] whatever is pending: deadlines, lifespans, blocked writes,
    leases, announcements (the scenarios of C27, C29, C30 and the lease scenarios of C03 with the Sleep events kept)"""
    out = []
    for gen, cnt in ((c27, 25), (c29, 25), (c30, 25)):
        for sc in gen(tier, seed)[: cnt if tier == "quick" else 300]:
            sc = dict(sc)
            sc["name"] = "C31-" + sc["name"]
            out.append(sc)
    for sc in c03(tier, seed):
        if sc["family"] == "silence":
            sc = dict(sc)
            sc["name"] = "C31-" + sc["name"]
            out.append(sc)
    # a blocked KEEP_LAST write of a writer with a finite lifespan that is released by the worker itself when the
    # silent reader's participant lease expires, long after the lifespan of the blocked sample
    for k, (lifespan, depth) in enumerate([(300, 1), (1000, 1), (300, 2), (20, 1)]):
        steps = setup(q(hist=depth, lifespan_ms=lifespan, max_blocking_ms=150000), [q()])
        steps += [{"do": "silence_participant", "part": 1}]
        steps += [{"do": "write", "w": 0, "i": 1, "len": 8} for _ in range(depth)]
        steps += [{"do": "write", "w": 0, "i": 1, "len": 8, "during": [{"at_ms": 50000, "do": "trigger_obs"}]},
                  {"do": "sleep", "ms": 3000}, {"do": "final"}]
        out.append({"name": f"C31-blockedexpired-{k}", "family": "blockedexpired", "seed": seed, "frag": 1344, "steps": steps, "max_steps": 20000000})
    # the same duties with a clock that moves between two reads inside one worker iteration (as every real clock does):
    # an entry that is kept by the expiry sweep and already expired when the next sleep is computed must not yield a negative sleep
    drifted = []
    for sc in out:
        if sc["family"] in ("silence", "lifespan", "blockedexpired") or sc["name"].startswith("C31-C29") or sc["name"].startswith("C31-C30"):
            d = dict(sc)
            d["name"] = sc["name"] + "-drift"
            d["family"] = "drift"
            d["drift_ns"] = [700, 300000, 100000][len(drifted) % 3]
            drifted.append(d)
    drifted.sort(key=lambda d: (0 if "blockedexpired" in d["name"] else 1 if "silence" in d["name"] else 2))
    out += drifted[: 40 if tier == "quick" else 400]
    return out


# ---------------------------------------------------------------------------------------------
def c32(tier, seed):
    """WaitSet::wait against status changes and set_enabled_statuses while it is blocked"""
    rng = random.Random(seed)
    out = []
    n = 30 if tier == "quick" else 400
    for k in range(n):
        steps = setup(q(), [q()]) + [{"do": "sleep", "ms": 100}, {"do": "sub_status", "r": 0}]
        mode = ["data", "enable_after_change", "never", "already", "match"][k % 5]
        ms = rng.choice([400, 1000])
        at = rng.choice([0, 30, 120, 300])
        if mode == "data":
            w = {"do": "wait_set", "r": 0, "enabled": ["DataAvailable"], "ms": ms,
                 "during": [{"at_ms": at, "do": "write", "w": 0, "i": 1, "len": 8}, {"at_ms": at + 20, "do": "trigger_obs"}]}
        elif mode == "enable_after_change":
            w = {"do": "wait_set", "r": 0, "enabled": ["RequestedDeadlineMissed"], "ms": ms,
                 "during": [{"at_ms": at, "do": "write", "w": 0, "i": 1, "len": 8}, {"at_ms": at + 20, "do": "trigger_obs"},
                            {"at_ms": at + 60, "do": "set_enabled", "enabled": ["DataAvailable"]}]}
        elif mode == "never":
            w = {"do": "wait_set", "r": 0, "enabled": ["SampleRejected"], "ms": 300,
                 "during": [{"at_ms": at, "do": "write", "w": 0, "i": 1, "len": 8}, {"at_ms": at + 20, "do": "trigger_obs"}]}
        elif mode == "already":
            steps += [{"do": "write", "w": 0, "i": 1, "len": 8}, {"do": "sleep", "ms": 50}]
            w = {"do": "wait_set", "r": 0, "enabled": ["DataAvailable"], "ms": ms}
        else:
            w = {"do": "wait_set", "r": 0, "enabled": ["SubscriptionMatched"], "ms": ms,
                 "during": [{"at_ms": at, "do": "create_writer", "part": 0, "qos": q()}, {"at_ms": at + 100, "do": "trigger_obs"}]}
        steps += [w, {"do": "final"}]
        out.append({"name": f"C32-{mode}-{k}", "family": mode, "seed": seed * 61 + k, "frag": 1344, "steps": steps})
    return out


def c26(tier, seed):
    """content filtered reader + control reader on the related topic; bursts, faults that regroup arrivals, late joiners"""
    rng = random.Random(seed)
    out = []
    n = 45 if tier == "quick" else 600
    names = ["A", "AB", "B", "BA", "C", ""]
    for k in range(n):
        field = ["val", "name", "id"][k % 3]
        op = ["=", "<="][(k // 3) % 2]
        param = rng.choice(names[:5]) if field == "name" else str(rng.choice([2, 3, 4]))
        expr = rng.choice([f"{field} {op} %0", f"{field}{op}%0", f" {field}  {op} %0"])
        family = ["burst", "faults", "latejoin", "gaps", "batched"][k % 5]
        dur = "TRANSIENT_LOCAL" if family == "latejoin" else "VOLATILE"
        nw = rng.randint(5, 10)
        ws = []
        for j in range(nw):
            ws.append({"do": "write_f", "id": rng.randint(1, 5), "val": rng.randint(1, 5), "name": rng.choice(names)})
        readers = {"do": "cft_readers", "part": 1, "qos": q(dur=dur), "expr": expr, "params": [param], "field": field, "op": op}
        if k % 2:
            # a second filtered reader of the same subscriber with another parameter
            readers["params2"] = [rng.choice([x for x in names[:5] if x != param]) if field == "name" else str(rng.choice([x for x in (1, 2, 3, 4, 5) if str(x) != param]))]
        steps = [{"do": "participant"}, {"do": "participant"}, {"do": "cft_writer", "part": 0, "qos": q(dur=dur)}]
        if family == "latejoin":
            steps += ws + [{"do": "sleep", "ms": 50}, readers, {"do": "sleep", "ms": 800}]
        elif family == "batched":
            # the peer sends several DATA submessages in one RTPS message (held datagrams merged)
            steps += [readers, {"do": "sleep", "ms": 600}, {"do": "hold", "on": True}] + ws + [{"do": "sleep", "ms": 5}, {"do": "merge_held"}, {"do": "hold", "on": False}]
        else:
            steps += [readers, {"do": "sleep", "ms": 600}]
            if family == "faults":
                steps.append({"do": "faults", "loss": rng.choice([0.2, 0.4]), "dup": 0.1, "delay": 0.4, "max_delay_ms": rng.choice([20, 80])})
            for j, w in enumerate(ws):
                steps.append(w)
                if family == "gaps":
                    steps.append({"do": "sleep", "ms": rng.choice([1, 30, 250])})
                if family != "burst" and rng.random() < 0.2:
                    steps.append({"do": "take_f"})
        steps += [{"do": "heal"}, {"do": "quiesce", "ms": 3000}, {"do": "take_f", "final": True}, {"do": "final"}]
        out.append({"name": f"C26-{family}-{field}{op}-{k}", "family": family, "seed": seed * 67 + k, "frag": 1344, "steps": steps})
    return out


ADV_DEFAULTS = {}


def adv_family(msg, defaults):
    """family of an adversarial message: submessage kinds and the fields that differ from the default"""
    parts = []
    if msg.get("hdr", "ok") != "ok":
        parts.append("hdr=" + msg["hdr"])
    if msg.get("truncate"):
        parts.append("truncated")
    for s in msg["subs"]:
        d = defaults.get(s["k"], {})
        ch = sorted(f for f in s if f != "k" and d.get(f) != s[f])
        parts.append(s["k"] + ("[" + "+".join(f"{f}={s[f]}" for f in ch) + "]" if ch else ""))
    return "/".join(parts)


def c06(tier, seed, cases):
    """every adversarial message of Adversary.tla (quick: all single-field variants, header/truncation/prefix variants
    and a seeded quarter of the two-field variants) injected into a victim with live user endpoints in both directions"""
    rng = random.Random(seed)
    defaults = {}
    for m in cases:
        if len(m["subs"]) == 1 and m["hdr"] == "ok" and not m["truncate"]:
            k = m["subs"][0]["k"]
            defaults.setdefault(k, []).append(m["subs"][0])
    # the default of a kind is the variant that shares the most field values with all others
    dflt = {}
    for k, subs in defaults.items():
        best = max(subs, key=lambda s: sum(sum(1 for f in s if o.get(f) == s[f]) for o in subs))
        dflt[k] = best
    out = []
    for n, m in enumerate(cases):
        m = dict(m)
        m["id"] = n
        fam = adv_family(m, dflt)
        nchanged = sum(1 for s in m["subs"] for f in s if f != "k" and dflt.get(s["k"], {}).get(f) != s[f])
        if tier == "quick" and nchanged >= 2 and len(m["subs"]) == 1 and rng.random() > 0.25:
            continue
        steps = [{"do": "participant"}, {"do": "participant"},
                 {"do": "create_writer", "part": 0, "qos": q()}, {"do": "create_reader", "part": 1, "qos": q()},
                 {"do": "create_writer", "part": 1, "qos": q()}, {"do": "create_reader", "part": 0, "qos": q()},
                 {"do": "sleep", "ms": 800},
                 {"do": "write", "w": 0, "i": 1, "len": 8}, {"do": "write", "w": 0, "i": 2, "len": 8},
                 {"do": "write", "w": 1, "i": 1, "len": 8}, {"do": "write", "w": 1, "i": 1, "len": 3000},
                 {"do": "sleep", "ms": 300},
                 {"do": "inject", "to": 1, "known": 0, "peer_writer": 0, "victim_reader": 0, "victim_writer": 1, "peer_reader": 1, "msgs": [m]},
                 {"do": "sleep", "ms": 300},
                 {"do": "probe", "victim": 1, "victim_reader": 0, "victim_writer": 1, "tag": 200},
                 {"do": "final"}]
        out.append({"name": f"C06-{n}", "family": fam, "seed": seed * 71 + n, "frag": 1344, "steps": steps})
    return out


def c24own(tier, seed):
    """C24 end to end: two or three writers of different strength (one per participant) and one EXCLUSIVE reader with a deadline.
    Families: deadline (the owner falls silent, a weaker writer takes over only after the deadline), takeover (stronger writer
    appears), unregister (the owner unregisters), delete (the owner's writer is deleted), random mixes.  Writes of the non-owner
    are placed clearly before or clearly after the instants at which ownership may pass (the specification accepts either
    outcome inside the detection windows)."""
    rng = random.Random(7000 + seed)
    out = []

    def base(strengths, deadline_ms):
        steps = [{"do": "participant"} for _ in range(len(strengths) + 1)]
        for k, s in enumerate(strengths):
            # (the offered deadline must not be longer than the requested one or the pair does not match)
            steps.append({"do": "create_writer", "part": k, "qos": q(own="EXCLUSIVE", strength=s, deadline_ms=deadline_ms)})
        steps.append({"do": "create_reader", "part": len(strengths), "qos": q(own="EXCLUSIVE", deadline_ms=deadline_ms)})
        for k in range(len(strengths)):
            steps.append({"do": "wait_match", "w": k, "n": 1})
        return steps

    def end(steps, name, family):
        steps += [{"do": "sleep", "ms": 300}, {"do": "take", "r": 0}, {"do": "final"}]
        out.append({"name": name, "family": family, "seed": seed, "frag": 1344, "steps": steps})

    W = lambda w, i=1: {"do": "write", "w": w, "i": i, "len": 8}
    S = lambda ms: {"do": "sleep", "ms": ms}
    n = 0
    for dl in ((400, 700) if tier == "quick" else (300, 400, 700, 1000)):
        for strong_first in (True, False):
            # deadline: owner (strong) writes, weak writes are ignored until the owner has been silent for a deadline period
            st = base([10, 5], dl)
            a, b = (0, 1)
            st += [W(a), S(60), W(b), S(60), W(a), S(dl // 3), W(b), S(dl + 200), W(b), S(80), W(b), S(60), W(a), S(60), W(b), S(dl // 3), W(b)]
            if not strong_first:
                st = base([5, 10], dl)
                a, b = (1, 0)
                st += [W(b), S(60), W(a), S(60), W(b), S(dl + 200), W(b), S(60), W(a), S(50), W(b), S(dl + 250), W(b), W(a), W(b)]
            end(st, f"C24own-deadline-{n}", "deadline")
            n += 1
        # two instances: the deadline of each instance is its own
        st = base([10, 5], dl)
        st += [W(0, 1), W(0, 2), S(dl // 2), W(0, 2), W(1, 1), W(1, 2), S(dl // 2 + 150), W(1, 1), W(1, 2), S(dl // 2 + 150), W(1, 2), W(1, 1)]
        end(st, f"C24own-twoinst-{n}", "deadline")
        n += 1
    # unregister: ownership passes at once; a weaker writer's unregister changes nothing
    for k in range(2 if tier == "quick" else 6):
        st = base([10, 5, 7][: 2 + k % 2], -1)
        st += [W(0), S(50), W(1), S(50), {"do": "unregister", "w": 0, "i": 1, "len": 8}, S(100), W(1), S(50), W(1), S(50), W(0), S(50), W(1)]
        if k % 2:
            st += [S(50), W(2), S(50), {"do": "unregister", "w": 0, "i": 1, "len": 8}, S(100), W(1), S(50), W(2), S(50), W(1)]
        end(st, f"C24own-unregister-{n}", "unregister")
        n += 1
    # delete: the owner's writer is deleted
    for k in range(2 if tier == "quick" else 6):
        st = base([10, 5], -1 if k % 2 else 2000)
        st += [W(0), S(50), W(1), S(50), W(0), S(50), {"do": "delete_writer", "w": 0}, S(300), W(1), S(50), W(1)]
        end(st, f"C24own-delete-{n}", "delete")
        n += 1
    # random mixes over two instances and three writers; sleeps are multiples of 70 ms, deadline 1 s or none
    for k in range(10 if tier == "quick" else 120):
        strengths = rng.sample([3, 5, 8, 10, 12], 3)
        dl = rng.choice([-1, 1000, 600])
        st = base(strengths, dl)
        for _ in range(rng.randint(8, 16)):
            r = rng.random()
            if r < 0.7:
                st.append(W(rng.randrange(3), rng.choice([1, 1, 2])))
            elif r < 0.8:
                st.append({"do": "take", "r": 0})
            else:
                st.append(S(rng.choice([70, 140, 350, 700, 1200])))
            st.append(S(rng.choice([10, 30, 70])))
        end(st, f"C24own-random-{n}", "random")
        n += 1
    return out


def c04multi(tier, seed):
    """C04 with a reader that is matched with two or three TRANSIENT_LOCAL writers (one per participant): the history of one
    writer is held back while the others complete; wait_for_historical_data may only succeed when all of it has arrived."""
    rng = random.Random(9000 + seed)
    out = []
    n = 6 if tier == "quick" else 60
    for k in range(n):
        nw = 2 + k % 2
        steps = [{"do": "participant"} for _ in range(nw + 1)]
        for w in range(nw):
            steps.append({"do": "create_writer", "part": w, "qos": q(dur="TRANSIENT_LOCAL", hist=0)})
        for w in range(nw):
            steps += [{"do": "write", "w": w, "i": rng.choice([1, 2]), "len": 8} for _ in range(rng.randint(1, 3))]
        for w in range(nw):
            steps.append({"do": "partition", "from_part": w, "to_part": nw, "user_only": True})
        steps.append({"do": "create_reader", "part": nw, "qos": q(dur="TRANSIENT_LOCAL", hist=0)})
        steps += [{"do": "wait_match", "w": w, "n": 1} for w in range(nw)]
        held = rng.randrange(nw)
        for w in range(nw):
            if w != held:
                steps.append({"do": "unpartition", "from_part": w, "to_part": nw})
        steps += [{"do": "sleep", "ms": rng.choice([0, 300, 700])}, {"do": "wait_hist", "r": 0, "ms": rng.choice([900, 2500])}, {"do": "take", "r": 0},
                  {"do": "heal"}, {"do": "wait_hist", "r": 0, "ms": 5000}, {"do": "take", "r": 0}, {"do": "final"}]
        out.append({"name": f"C04-multi-{k}", "family": "multiwriter", "seed": seed * 73 + k, "frag": 1344, "steps": steps})
    return out
