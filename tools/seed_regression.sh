#!/bin/bash
# seed_regression.sh [ids...] : for every kept seeded change, apply it to /repo, run the check of the property it breaks,
# expect a VIOLATION, undo it. Writes /verif/seeded/REGRESSION.txt (one line per seed).
cd /verif
OUT=/verif/seeded/REGRESSION.txt
: > $OUT.tmp
ids="$@"; [ -z "$ids" ] && ids=$(ls seeded | grep -E '^C[0-9]+-[0-9]+$' | sort)
for id in $ids; do
  S=/verif/seeded/$id
  prop=$(python3 -c "import json;print(json.load(open('$S/meta.json'))['breaks_property'])" 2>/dev/null) || { echo "$id no-meta" >> $OUT.tmp; continue; }
  P=$S/patch.diff; [ -f $S/patch_ported.diff ] && P=$S/patch_ported.diff
  if ! git -C /repo apply --check $P 2>/dev/null; then echo "$id $prop PATCH-DOES-NOT-APPLY-ON-CURRENT-TREE" >> $OUT.tmp; continue; fi
  git -C /repo apply $P
  res=$(./check $prop 2>&1 | grep -E "^\[$prop\]" | tail -1)
  nv=$(echo "$res" | sed -n 's/.*violations=\([0-9]*\).*/\1/p')
  git -C /repo checkout -- .
  if [ "${nv:-0}" -gt 0 ]; then echo "$id $prop DETECTED ($res)" >> $OUT.tmp; else echo "$id $prop NOT-DETECTED ($res)" >> $OUT.tmp; fi
done
(cd /verif/harness && cargo build --release --offline > /dev/null 2>&1)
# merge with the results of earlier runs (one line per seed, newest wins)
python3 - "$OUT" "$OUT.tmp" <<'PY'
import sys,os
old,new=sys.argv[1],sys.argv[2]
d={}
for f in (old,new):
    if os.path.exists(f):
        for l in open(f):
            if l.strip(): d[l.split()[0]]=l.rstrip("\n")
open(old,"w").write("\n".join(d[k] for k in sorted(d))+"\n")
os.remove(new)
PY
