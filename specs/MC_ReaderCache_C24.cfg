\* C24: exclusive ownership, strengths 1 < 2, owner may unregister or be unmatched
SPECIFICATION Spec
VIEW view
INVARIANT Inv
CHECK_DEADLOCK FALSE
CONSTANTS
  Instances = {1}
  Writers = {1, 2}
  Timestamps = {1}
  Depth = 0
  MaxS = 0
  MaxI = 0
  MaxSPI = 0
  BySource = FALSE
  Exclusive = TRUE
  StrengthOf <- Strength12
  MinSep = 0
  Kinds = {"ALIVE", "DISPOSED", "UNREGISTERED"}
  MaxAdds = 5
  MaxAccess = 1
  AccessKinds = {"Read"}
  MaskChoices <- MaskAny
  MaxChoices = {0}
  UseInstArg = FALSE
  MaxUnmatch = 2
