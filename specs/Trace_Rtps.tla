----------------------------- MODULE Trace_Rtps -----------------------------
(***************************************************************************)
(* Trace validation of recorded executions of the real dust-dds (run in    *)
(* the deterministic simulation) against the rules of the reliable /       *)
(* best-effort RTPS envelope of Rtps.tla ("receiver-sound,                 *)
(* sender-justified"):                                                     *)
(*                                                                         *)
(*  - what a reader acknowledges or presents must have been delivered to   *)
(*    it (or declared irrelevant by a delivered GAP / HEARTBEAT);          *)
(*  - every DATA / DATA_FRAG / GAP / HEARTBEAT the writer emits must be    *)
(*    justified by the writer history the API calls produced;              *)
(*  - API results (take, wait_for_acknowledgments, blocking write,         *)
(*    wait_for_historical_data) must be allowed by the abstract state;     *)
(*  - after the network healed and a quiescence period, the liveness       *)
(*    goals must have been reached (bounded liveness).                     *)
(*                                                                         *)
(* The trace is consumed line by line (variable l); a rule that does not   *)
(* hold is recorded in `viol' with the line number instead of blocking, so *)
(* that the rest of the trace is still checked.  Acceptance is             *)
(*     l = Len(Rec) + 1  /\  viol = <<>>     (POSTCONDITION).              *)
(* Times are microseconds since the start of the scenario.                 *)
(***************************************************************************)
EXTENDS Integers, Sequences, FiniteSets, TLC, Json, IOUtils, SequencesExt, FiniteSetsExt

Rec == ndJsonDeserialize(IOEnv.TRACE)
N == Len(Rec)

POKE == 50000        \* worker period (us)
LEASE == 100000000   \* participant lease duration announced by dust-dds (us)
SLACK == 1000        \* tolerance for time comparisons at microsecond truncation (us)

VARIABLES l, st, viol, cnt
vars == <<l, st, viol, cnt>>

NoReaders == [x \in {} |-> 0]

InitSt == [
    frag    |-> 1344,
    wnet    |-> -1,
    wq      |-> [rel |-> "RELIABLE", dur |-> "VOLATILE", depth |-> 0, lifespan |-> -1, blocking |-> 100000, deadline |-> -1],
    lastSN  |-> 0,
    smp     |-> <<>>,      \* sn -> [i, seq, len, kind, ts, tw, sent]
    evicted |-> {},        \* sns removed from the writer history by KEEP_LAST
    pend    |-> [active |-> FALSE, t0 |-> 0, full |-> FALSE, victim |-> 0, lastSN |-> 0, smp |-> <<>>, evicted |-> {}],
    rd      |-> NoReaders, \* reader index -> reader record
    msgs    |-> NoReaders, \* datagram id -> [from, to, subs]
    healed  |-> FALSE,
    healT   |-> 0,
    now     |-> 0]

CntInit == [data |-> 0, gap |-> 0, hb |-> 0, acknack |-> 0, nackfrag |-> 0, take |-> 0, presented |-> 0,
            final |-> 0, waitacks |-> 0, waithist |-> 0, blockedwrite |-> 0, sleep |-> 0, frag |-> 0,
            scenarios |-> 0, faults |-> 0]

NewReader(net, q, lastSN) == [
    net |-> net, q |-> q, alive |-> TRUE,
    lo |-> lastSN,         \* writer's last sn when the reader was created
    hi |-> -1,             \* writer's last sn when the match was first observed (-1: not yet)
    recvd |-> {},          \* sns whose DATA (or complete fragment set) was delivered to the reader
    gapped |-> {},         \* sns declared irrelevant by a delivered GAP or HEARTBEAT.first
    frags |-> {},          \* <<sn, fragment number>> delivered
    pres |-> <<>>,         \* sns presented by take, in order
    silenced |-> -1,       \* time at which the reader's participant went silent (-1: never)
    ackUB |-> 0,           \* highest base-1 of any ACKNACK of this reader delivered to the writer
    hbSeen |-> FALSE]      \* a HEARTBEAT of the writer was delivered to the reader

-----------------------------------------------------------------------------
(* Helpers over the abstract state *)

Max2(a, b) == IF a > b THEN a ELSE b
CeilDiv(a, b) == (a + b - 1) \div b
SetOfSeq(s) == {s[n] : n \in 1..Len(s)}
ReaderIdx(s) == DOMAIN s.rd
ReaderByNet(s, net) == {r \in DOMAIN s.rd : s.rd[r].net = net /\ s.rd[r].alive}
IsWriterNet(s, net) == net = s.wnet
Reliable(s, r) == s.rd[r].q.rel = "RELIABLE" /\ s.wq.rel = "RELIABLE"
TransientLocal(s, r) == s.rd[r].q.dur = "TRANSIENT_LOCAL" /\ s.wq.dur = "TRANSIENT_LOCAL"

\* A sample whose lifespan elapsed may have been removed from the writer history (the removal
\* happens at some worker step after the expiry instant); one that was expired when written is
\* never put into the history.
Expirable(s, sn, t) == s.wq.lifespan >= 0 /\ s.smp[sn].ts + s.wq.lifespan <= t + SLACK
StillValid(s, sn, t) == s.wq.lifespan < 0 \/ s.smp[sn].ts + s.wq.lifespan + SLACK >= t
Removed(s, sn, t) == sn \in s.evicted \/ (s.pend.active /\ s.pend.full /\ sn = s.pend.victim) \/ Expirable(s, sn, t)

\* sns the writer may treat as irrelevant for reader r (written before the match of a VOLATILE reader)
MayBeIrrelevant(s, r, sn) ==
    ~TransientLocal(s, r) /\ sn <= (IF s.rd[r].hi >= 0 THEN s.rd[r].hi ELSE s.lastSN)
\* sns the writer must deliver to reader r
MustDeliver(s, r, sn, t) ==
    /\ s.rd[r].hi >= 0
    /\ (TransientLocal(s, r) \/ sn > s.rd[r].hi)
    /\ ~Removed(s, sn, t)
    /\ s.smp[sn].sent

\* data samples of instance i still in the writer history, oldest first
InstSamples(s, i) == SelectSeq([n \in 1..s.lastSN |-> n],
                               LAMBDA sn : s.smp[sn].i = i /\ s.smp[sn].kind = "write" /\ sn \notin s.evicted)

-----------------------------------------------------------------------------
(* One step: Apply(e) returns [s |-> new state, v |-> set of violated rule names, c |-> counters] *)

R(s, v, c) == [s |-> s, v |-> v, c |-> c]
Bump(c, f) == [c EXCEPT ![f] = @ + 1]

OnReset(s, e, c) == R([InitSt EXCEPT !.frag = e.frag], {}, Bump(c, "scenarios"))

OnCreateWriter(s, e, c) == R([s EXCEPT !.wnet = e.net, !.wq = e.q], {}, c)

OnCreateReader(s, e, c) ==
    LET r == Cardinality(DOMAIN s.rd)
    IN R([s EXCEPT !.rd = [x \in DOMAIN s.rd \cup {r} |->
                                IF x = r THEN NewReader(e.net, e.q, s.lastSN) ELSE s.rd[x]]], {}, c)

OnDeleteReader(s, e, c) ==
    IF e.r \in DOMAIN s.rd THEN R([s EXCEPT !.rd[e.r].alive = FALSE], {}, c) ELSE R(s, {}, c)

OnMatched(s, e, c) ==
    \* the harness observed that the writer has n matched readers: every live reader whose match
    \* was not yet observed is matched from now on at the latest
    IF e.n = e.want
    THEN R([s EXCEPT !.rd = [r \in DOMAIN s.rd |->
                IF s.rd[r].alive /\ s.rd[r].hi < 0 THEN [s.rd[r] EXCEPT !.hi = s.lastSN] ELSE s.rd[r]]], {}, c)
    ELSE R(s, {}, c)

\* A write call tentatively creates the sample (messages for it are emitted before the call
\* returns); the previous writer state is kept in `undo' and restored if the call fails.
\* C27: the sample a KEEP_LAST write evicts must have been acknowledged by every matched
\* reliable reader when the call returns Ok; Timeout only after max_blocking_time.
OnWriteCall(s, e, c) ==
    LET inst == InstSamples(s, e.i)
        full == s.wq.depth > 0 /\ e.kind = "write" /\ Len(inst) >= s.wq.depth
        victim == IF full THEN inst[1] ELSE 0
        wts == IF e.ts >= 0 THEN e.ts ELSE e.t
        smp1 == Append(s.smp, [i |-> e.i, seq |-> e.seq, len |-> e.len, kind |-> e.kind, ts |-> wts, tw |-> e.t,
                               sent |-> (s.wq.lifespan < 0 \/ wts + s.wq.lifespan > e.t)])
    IN R([s EXCEPT !.pend = [active |-> TRUE, t0 |-> e.t, full |-> full, victim |-> victim,
                             lastSN |-> s.lastSN, smp |-> s.smp, evicted |-> s.evicted],
                   !.lastSN = s.lastSN + 1, !.smp = smp1], {}, c)

OnWriteRet(s, e, c) ==
    LET p == s.pend
        unacked == {r \in DOMAIN s.rd : s.rd[r].alive /\ s.rd[r].hi >= 0 /\ Reliable(s, r)
                                        /\ (TransientLocal(s, r) \/ p.victim > s.rd[r].hi) /\ s.rd[r].ackUB < p.victim}
        blockedFor == e.t - e.t0
        idle == [active |-> FALSE, t0 |-> 0, full |-> FALSE, victim |-> 0, lastSN |-> 0, smp |-> <<>>, evicted |-> {}]
    IN
    IF ~p.active THEN R(s, {}, c)
    ELSE IF e.res = "Ok" THEN
        R([s EXCEPT !.pend = idle, !.evicted = IF p.full THEN @ \cup {p.victim} ELSE @],
          (IF p.full /\ s.wq.rel = "RELIABLE" /\ unacked # {} THEN {"C27:write-evicted-unacknowledged-sample"} ELSE {}),
          IF p.full THEN Bump(c, "blockedwrite") ELSE c)
    ELSE
        R([s EXCEPT !.pend = idle, !.lastSN = p.lastSN, !.smp = p.smp, !.evicted = p.evicted],
          IF e.res = "Timeout" THEN
              (IF ~(p.full /\ s.wq.rel = "RELIABLE") THEN {"C27:timeout-without-full-history"} ELSE {})
              \cup (IF s.wq.blocking >= 0 /\ blockedFor + SLACK < s.wq.blocking THEN {"C27:timeout-before-max-blocking-time"} ELSE {})
              \cup (IF s.wq.blocking >= 0 /\ blockedFor > s.wq.blocking + POKE + SLACK THEN {"C31:timeout-later-than-max-blocking-time-plus-poke"} ELSE {})
          ELSE {},
          Bump(c, "blockedwrite"))

-----------------------------------------------------------------------------
(* Emission rules *)

FragTotal(sub) == CeilDiv(sub.ds, sub.fs)

DataRules(s, r, sub, t) ==
    LET sn == sub.sn IN
    (IF sn < 1 \/ sn > s.lastSN THEN {"C01:data-with-unknown-sequence-number"} ELSE
        (IF ~TransientLocal(s, r) /\ sn <= s.rd[r].lo THEN {"C04:history-sent-to-volatile-reader"} ELSE {})
        \cup (IF ~StillValid(s, sn, t) THEN {"C29:data-sent-after-lifespan-expired"} ELSE {})
        \cup (IF ~s.smp[sn].sent THEN {"C29:sample-expired-at-write-was-sent"} ELSE {})
        \cup (IF sn \in s.evicted THEN {"C27:evicted-sample-sent"} ELSE {}))
    \cup (IF sub.k = "DATAFRAG" THEN
            (IF sub.fs # s.frag THEN {"C05:fragment-size-differs-from-transport-setting"} ELSE {})
            \cup (IF sub.f < 1 \/ sub.f > FragTotal(sub) THEN {"C05:fragment-number-out-of-range"} ELSE {})
            \cup (IF sub.f >= 1 /\ sub.f <= FragTotal(sub)
                     /\ sub.len # (IF sub.f < FragTotal(sub) THEN sub.fs ELSE sub.ds - (FragTotal(sub) - 1) * sub.fs)
                  THEN {"C05:fragment-length-wrong"} ELSE {})
          ELSE {})

GapRange(sub) == {x \in sub.start..(sub.base - 1) : TRUE} \cup SetOfSeq(sub.set)

GapRules(s, r, sub, t) ==
    IF sub.base - sub.start > 64 THEN {"C06:huge-gap-range"} ELSE
    IF \E sn \in GapRange(sub) :
            \/ sn < 1 \/ sn > s.lastSN
            \/ ~(MayBeIrrelevant(s, r, sn) \/ Removed(s, sn, t) \/ ~s.smp[sn].sent)
    THEN {"C01:gap-for-sample-still-held-and-relevant"} ELSE {}

HbRules(s, sub, t) ==
    (IF sub.first < 1 \/ sub.last > s.lastSN \/ sub.first > sub.last + 1 THEN {"C01:heartbeat-range-inconsistent"} ELSE {})
    \cup (IF sub.first >= 1 /\ sub.first <= s.lastSN + 1
             /\ \E sn \in 1..(sub.first - 1) : ~(Removed(s, sn, t) \/ ~s.smp[sn].sent)
          THEN {"C01:heartbeat-first-skips-sample-still-held"} ELSE {})

\* AckSound: a reader acknowledges only what was delivered to it or declared irrelevant
AckRules(s, r, sub) ==
    IF \E sn \in 1..(sub.base - 1) : sn \notin s.rd[r].recvd /\ sn \notin s.rd[r].gapped
    THEN {"C01:acknack-acknowledges-undelivered-sample"} ELSE {}

NackFragRules(s, r, sub) ==
    (IF \E f \in {sub.base} \cup SetOfSeq(sub.set) : f < 1 THEN {"C05:nackfrag-fragment-number-below-1"} ELSE {})
    \* (a fragment that was delivered may legitimately be requested again: a reliable reader
    \*  discards fragments of a sample that is not the next expected one)
    \cup (IF sub.sn < 1 \/ sub.sn > s.lastSN THEN {"C05:nackfrag-for-unknown-sample"} ELSE {})

SubRulesFromWriter(s, r, sub, t) ==
    CASE sub.k = "DATA" \/ sub.k = "DATAFRAG" -> DataRules(s, r, sub, t)
      [] sub.k = "GAP" -> GapRules(s, r, sub, t)
      [] sub.k = "HB" -> HbRules(s, sub, t)
      [] OTHER -> {}

SubRulesFromReader(s, r, sub) ==
    CASE sub.k = "ACKNACK" -> AckRules(s, r, sub)
      [] sub.k = "NACKFRAG" -> NackFragRules(s, r, sub)
      [] OTHER -> {}

CountSubs(c, subs) ==
    LET n(k) == Cardinality({j \in 1..Len(subs) : subs[j].k = k})
    IN [c EXCEPT !.data = @ + n("DATA") + n("DATAFRAG"), !.frag = @ + n("DATAFRAG"), !.gap = @ + n("GAP"),
                 !.hb = @ + n("HB"), !.acknack = @ + n("ACKNACK"), !.nackfrag = @ + n("NACKFRAG")]

OnSend(s, e, c) ==
    LET s1 == [s EXCEPT !.msgs = [x \in DOMAIN s.msgs \cup {e.id} |->
                                    IF x = e.id THEN [from |-> e.from, to |-> e.to, subs |-> e.subs] ELSE s.msgs[x]]]
        v == IF e.dup = 1 \/ e.meta = 1 THEN {}
             ELSE IF IsWriterNet(s, e.from) THEN
                    UNION {UNION {SubRulesFromWriter(s, r, e.subs[j], e.t) : j \in 1..Len(e.subs)} : r \in ReaderByNet(s, e.to)}
             ELSE UNION {UNION {SubRulesFromReader(s, r, e.subs[j]) : j \in 1..Len(e.subs)} : r \in ReaderByNet(s, e.from)}
    IN R(s1, v, IF e.meta = 1 THEN c ELSE CountSubs(c, e.subs))

\* Delivery of a datagram: update what the receiver has been given
DeliverToReader(rdr, subs, frag) ==
    LET step(acc, sub) ==
          CASE sub.k = "DATA" -> [acc EXCEPT !.recvd = @ \cup {sub.sn}]
            [] sub.k = "DATAFRAG" ->
                 LET fr == acc.frags \cup {<<sub.sn, sub.f>>}
                     total == FragTotal(sub)
                     complete == \A f \in 1..total : <<sub.sn, f>> \in fr
                 IN [acc EXCEPT !.frags = fr, !.recvd = IF complete THEN @ \cup {sub.sn} ELSE @]
            [] sub.k = "GAP" -> IF sub.base - sub.start > 64 THEN acc
                                ELSE [acc EXCEPT !.gapped = @ \cup GapRange(sub)]
            [] sub.k = "HB" -> [acc EXCEPT !.gapped = @ \cup (1..(sub.first - 1)), !.hbSeen = TRUE]
            [] OTHER -> acc
    IN FoldSeq(LAMBDA sub, acc : step(acc, sub), rdr, subs)

DeliverToWriter(s, from, subs) ==
    LET rs == {r \in DOMAIN s.rd : s.rd[r].net = from}
        ub == [r \in DOMAIN s.rd |->
                 IF r \in rs
                 THEN FoldSeq(LAMBDA sub, a : IF sub.k = "ACKNACK" THEN Max2(a, sub.base - 1) ELSE a, s.rd[r].ackUB, subs)
                 ELSE s.rd[r].ackUB]
    IN [s EXCEPT !.rd = [r \in DOMAIN s.rd |-> [s.rd[r] EXCEPT !.ackUB = ub[r]]]]

OnDeliver(s, e, c) ==
    IF e.id \notin DOMAIN s.msgs THEN R(s, {}, c)
    ELSE
      LET m == s.msgs[e.id]
          s0 == [s EXCEPT !.msgs = [x \in DOMAIN s.msgs \ {e.id} |-> s.msgs[x]]]
      IN IF IsWriterNet(s, m.from)
         THEN R([s0 EXCEPT !.rd = [r \in DOMAIN s.rd |->
                        IF s.rd[r].net = m.to THEN DeliverToReader(s.rd[r], m.subs, s.frag) ELSE s.rd[r]]], {}, c)
         ELSE IF IsWriterNet(s, m.to) THEN R(DeliverToWriter(s0, m.from, m.subs), {}, c)
         ELSE R(s0, {}, c)

OnDrop(s, e, c) ==
    R([s EXCEPT !.msgs = [x \in DOMAIN s.msgs \ {e.id} |-> s.msgs[x]]], {}, Bump(c, "faults"))

-----------------------------------------------------------------------------
(* API results *)

SnOfSeq(s, seq) == LET cand == {sn \in 1..s.lastSN : s.smp[sn].seq = seq} IN IF cand = {} THEN 0 ELSE CHOOSE x \in cand : TRUE

\* C01 / C02: the reader presents only delivered samples, each once, in publication order, intact
OnTake(s, e, c) ==
    IF e.r \notin DOMAIN s.rd THEN R(s, {}, c)
    ELSE
      LET valid == SelectSeq(e.samples, LAMBDA x : x.valid = 1)
          sns == [n \in 1..Len(valid) |-> SnOfSeq(s, valid[n].seq)]
          rdr == s.rd[e.r]
          prev == rdr.pres
          all == prev \o sns
          v == (IF \E n \in 1..Len(sns) : sns[n] = 0 THEN {"C01:presented-sample-never-written"} ELSE {})
               \cup (IF \E n \in 1..Len(sns) : sns[n] # 0 /\ sns[n] \notin rdr.recvd
                     THEN {"C01:presented-sample-never-delivered"} ELSE {})
               \cup (IF e.take = 1 /\ \E n, m \in 1..Len(all) : n < m /\ all[n] >= all[m]
                     THEN {"C01:presented-out-of-order-or-twice"} ELSE {})
               \cup (IF \E n \in 1..Len(valid) : valid[n].ok = 0 THEN {"C01:payload-corrupted"} ELSE {})
               \cup (IF \E n \in 1..Len(valid) : sns[n] # 0 /\ valid[n].len # s.smp[sns[n]].len
                     THEN {"C01:payload-length-differs"} ELSE {})
               \cup (IF \E n \in 1..Len(sns) : sns[n] # 0 /\ ~TransientLocal(s, e.r) /\ sns[n] <= rdr.lo
                     THEN {"C04:volatile-reader-presented-sample-written-before-it-existed"} ELSE {})
               \cup (IF \E n \in 1..Len(valid) : sns[n] # 0 /\ valid[n].ts >= 0
                                                  /\ (valid[n].ts > s.smp[sns[n]].ts + 1 \/ valid[n].ts + 1 < s.smp[sns[n]].ts)
                     THEN {"C14:source-timestamp-changed-in-transit"} ELSE {})
      IN R(IF e.take = 1 THEN [s EXCEPT !.rd[e.r].pres = all] ELSE s, v,
           [c EXCEPT !.take = @ + 1, !.presented = @ + Len(sns)])

\* C03: success of wait_for_acknowledgments implies delivery to every matched reliable reader
OnWaitAcksRet(s, e, c) ==
    LET readers == {r \in DOMAIN s.rd : s.rd[r].alive /\ s.rd[r].hi >= 0 /\ Reliable(s, r)
                                        /\ (s.rd[r].silenced < 0 \/ e.t < s.rd[r].silenced + LEASE - 10000000)}
        missing == {<<r, sn>> \in readers \X (1..s.lastSN) :
                        MustDeliver(s, r, sn, e.t) /\ sn \notin s.rd[r].recvd}
    IN R(s,
         (IF e.res = "Ok" /\ missing # {} THEN {"C03:wait-for-acknowledgments-succeeded-before-delivery"} ELSE {})
         \cup (IF e.res # "Ok" /\ ((s.healed /\ e.t - e.dt >= s.healT + 40 * POKE) \/ e.must = 1)
               THEN {"C03:wait-for-acknowledgments-did-not-complete"} ELSE {}),
         Bump(c, "waitacks"))

\* C04: wait_for_historical_data completes once the network healed
OnWaitHistRet(s, e, c) ==
    R(s,
      IF e.res # "Ok" /\ ((s.healed /\ e.t - e.dt >= s.healT + 40 * POKE) \/ e.must = 1)
      THEN {"C04:wait-for-historical-data-did-not-complete"} ELSE {},
      Bump(c, "waithist"))

\* Bounded liveness (C01, C04, C05): after heal + quiescence every reliable matched reader has
\* presented every sample the writer still holds and must deliver to it
OnFinal(s, e, c) ==
    LET readers == {r \in DOMAIN s.rd : s.rd[r].alive /\ s.rd[r].hi >= 0 /\ Reliable(s, r)}
        missing == {<<r, sn>> \in readers \X (1..s.lastSN) :
                        MustDeliver(s, r, sn, e.t) /\ s.smp[sn].kind = "write"
                        /\ sn \notin SetOfSeq(s.rd[r].pres)}
        histmiss == {<<r, sn>> \in missing : sn <= s.rd[r].lo}
    IN R(s,
         (IF ~s.healed THEN {} ELSE
            (IF missing \ histmiss # {} THEN {"C01:retained-sample-not-presented-after-heal"} ELSE {})
            \cup (IF histmiss # {} THEN {"C04:history-not-presented-to-transient-local-reader"} ELSE {})),
         Bump(c, "final"))

OnSleep(s, e, c) ==
    R(s, IF e.dns < 0 \/ e.dns > POKE * 1000 THEN {"C31:worker-sleep-outside-0-poke"} ELSE {}, Bump(c, "sleep"))

Apply(s0, e, c) ==
    LET s == [s0 EXCEPT !.now = e.t] IN
    CASE e.ev = "Reset" -> OnReset(s, e, c)
      [] e.ev = "CreateWriter" -> OnCreateWriter(s, e, c)
      [] e.ev = "CreateReader" -> OnCreateReader(s, e, c)
      [] e.ev = "DeleteReader" -> OnDeleteReader(s, e, c)
      [] e.ev = "Matched" -> OnMatched(s, e, c)
      [] e.ev = "WriteCall" -> OnWriteCall(s, e, c)
      [] e.ev = "WriteRet" -> OnWriteRet(s, e, c)
      [] e.ev = "Send" -> OnSend(s, e, c)
      [] e.ev = "Deliver" -> OnDeliver(s, e, c)
      [] e.ev = "Drop" -> OnDrop(s, e, c)
      [] e.ev = "Take" -> OnTake(s, e, c)
      [] e.ev = "WaitAcksRet" -> OnWaitAcksRet(s, e, c)
      [] e.ev = "WaitHistRet" -> OnWaitHistRet(s, e, c)
      [] e.ev = "Silence" -> R([s EXCEPT !.rd = [r \in DOMAIN s.rd |->
                                    IF s.rd[r].net = e.net THEN [s.rd[r] EXCEPT !.silenced = e.t] ELSE s.rd[r]]], {}, c)
      [] e.ev = "Heal" -> R([s EXCEPT !.healed = TRUE, !.healT = e.t], {}, c)
      [] e.ev = "Final" -> OnFinal(s, e, c)
      [] e.ev = "Sleep" -> OnSleep(s, e, c)
      [] e.ev = "SimError" -> R(s, {"C06:simulation-hang-or-panic"}, c)
      [] OTHER -> R(s, {}, c)

-----------------------------------------------------------------------------
Init == l = 1 /\ st = InitSt /\ viol = <<>> /\ cnt = CntInit

Next ==
    /\ l <= N
    /\ LET r == Apply(st, Rec[l], cnt)
       IN /\ st' = r.s
          /\ cnt' = r.c
          /\ viol' = viol \o SetToSeq({[line |-> l, rule |-> x, t |-> Rec[l].t] : x \in r.v})
    /\ l' = l + 1

Spec == Init /\ [][Next]_vars

\* Printed once at the end: the verdict the check driver parses
Done ==
    l = N + 1 =>
        /\ PrintT(<<"TRACE-RESULT", ToJson([lines |-> N, violations |-> viol, counters |-> cnt])>>)
        /\ TRUE
Accepted == TLCGet("stats").diameter - 1 = N
=============================================================================
