----------------------------- MODULE ChannelsA -----------------------------
(***************************************************************************)
(* The mpsc channel of Channels.tla with type annotations for Apalache:    *)
(* NoLostWakeup /\ Fifo is shown to be an INDUCTIVE invariant, i.e. it     *)
(* holds for any number of sends, polls, clones and drops, not only for    *)
(* the bounded configurations TLC enumerates.                              *)
(*   apalache-mc check --init=IndInit --inv=IndInv --length=1 ChannelsA.tla*)
(*   apalache-mc check --init=Init --inv=IndInv --length=0 ChannelsA.tla   *)
(* The queue holds consecutive integers: data = <<lo, lo+1, .., hi-1>> is  *)
(* represented by its bounds, which is all the FIFO property needs.        *)
(***************************************************************************)
EXTENDS Integers

VARIABLES
    \* @type: Int;
    lo,        \* next value the receiver will get
    \* @type: Int;
    hi,        \* next value a sender will put (the queue holds lo .. hi-1)
    \* @type: Int;
    senders,
    \* @type: Int;
    waker,     \* registered waker id, 0 = none
    \* @type: Int;
    pendingWakes,  \* wake-ups delivered to the receiver task and not yet consumed by a poll
    \* @type: Int;
    got,       \* number of values received so far (they were 1 .. got, in order)
    \* @type: Int;
    pcr        \* only used by NextSplit: the waker of a poll that has seen the queue empty and not yet registered

Init == lo = 1 /\ hi = 1 /\ senders = 1 /\ waker = 0 /\ pendingWakes = 0 /\ got = 0 /\ pcr = 0

Wake == IF waker # 0 THEN pendingWakes' = pendingWakes + 1 /\ waker' = 0 ELSE UNCHANGED <<pendingWakes, waker>>

Send == senders > 0 /\ hi' = hi + 1 /\ Wake /\ UNCHANGED <<lo, senders, got, pcr>>
Clone == senders > 0 /\ senders' = senders + 1 /\ UNCHANGED <<lo, hi, waker, pendingWakes, got, pcr>>
Drop == /\ senders > 0 /\ senders' = senders - 1
        /\ IF senders = 1 THEN Wake ELSE UNCHANGED <<pendingWakes, waker>>
        /\ UNCHANGED <<lo, hi, got, pcr>>
Poll(k) ==
    /\ k > 0 /\ pcr = 0 /\ UNCHANGED pcr
    /\ pendingWakes' = 0
    /\ IF lo < hi THEN lo' = lo + 1 /\ got' = got + 1 /\ UNCHANGED <<hi, senders, waker>>
       ELSE IF senders = 0 THEN UNCHANGED <<lo, hi, senders, waker, got>>
       ELSE waker' = k /\ UNCHANGED <<lo, hi, senders, got>>
Next == Send \/ Clone \/ Drop \/ \E k \in {1, 2} : Poll(k)

(* The same channel with a poll that is NOT one critical section: the emptiness check and the registration of the    *)
(* waker are two steps (the change of seeded defect C34-1).  NoLostWakeup must be violated: self test of the proof.  *)
PollCheck(k) == /\ pcr = 0 /\ lo = hi /\ senders > 0 /\ pcr' = k /\ pendingWakes' = 0
                /\ UNCHANGED <<lo, hi, senders, waker, got>>
PollRegister == pcr # 0 /\ waker' = pcr /\ pcr' = 0 /\ UNCHANGED <<lo, hi, senders, pendingWakes, got>>
NextSplit == Send \/ Clone \/ Drop \/ PollRegister \/ \E k \in {1, 2} : PollCheck(k)

\* a receiver that sleeps (waker registered, no pending wake-up) has nothing to receive and a sender is alive
NoLostWakeup == (waker # 0) => (lo = hi /\ senders > 0)
\* exactly once, in order: the receiver got 1 .. got, the queue holds got+1 .. hi-1
Fifo == lo = got + 1 /\ lo <= hi
TypeOK == senders >= 0 /\ waker \in {0, 1, 2} /\ pendingWakes >= 0 /\ got >= 0 /\ lo >= 1 /\ hi >= 1 /\ pcr \in {0, 1, 2}
IndInv == TypeOK /\ NoLostWakeup /\ Fifo /\ pcr = 0
IndInit == lo \in Int /\ hi \in Int /\ senders \in Int /\ waker \in Int /\ pendingWakes \in Int /\ got \in Int /\ pcr \in Int /\ IndInv
=============================================================================
