\* C18: KEEP_LAST(2), reception order, non-monotonic source timestamps: the oldest RECEIVED sample is replaced
SPECIFICATION Spec
VIEW view
INVARIANT Inv
CHECK_DEADLOCK FALSE
CONSTANTS
  Instances = {1, 2}
  Writers = {1}
  Timestamps = {1, 2}
  Depth = 2
  MaxS = 0
  MaxI = 0
  MaxSPI = 2
  BySource = FALSE
  Exclusive = FALSE
  StrengthOf <- Strength0
  MinSep = 0
  Kinds = {"ALIVE"}
  MaxAdds = 5
  MaxAccess = 1
  AccessKinds = {"Read", "Take"}
  MaskChoices <- MaskAny
  MaxChoices = {0, 1}
  UseInstArg = FALSE
  MaxUnmatch = 0
