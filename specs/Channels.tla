------------------------------ MODULE Channels ------------------------------
(***************************************************************************)
(* The three channels between API callers and the dust-dds worker          *)
(* (dcps/channels: oneshot, mpsc, notification).  Every operation of the   *)
(* code is one critical section, hence one atomic action here; the         *)
(* interleavings of these actions are all the schedules there are (C34).   *)
(*                                                                         *)
(* Required: every sent value is received exactly once (queue: FIFO), a    *)
(* receiver that polled Pending with waker k is woken by the next send or  *)
(* by the last sender going away, disconnection is reported exactly when   *)
(* all senders are gone and nothing is left to receive.                    *)
(***************************************************************************)
EXTENDS Integers, Sequences, FiniteSets, TLC, Json

CONSTANTS Kind,        \* "oneshot" | "mpsc" | "notification"
          MaxSenders,  \* clones (mpsc, notification)
          MaxSends, MaxPolls, Wakers

VARIABLES data,      \* sequence of values in the channel (oneshot: length <= 1; notification: <<1>> = notified)
          senders,   \* number of live sender handles
          waker,     \* registered waker id or 0
          woken,     \* waker id -> number of wake-ups delivered
          received,  \* sequence of values handed to the receiver
          raced,     \* a racing operation pair has been issued (terminal)
          nSend, nPoll, nextVal, lastOp

vars == <<data, senders, waker, woken, received, raced, nSend, nPoll, nextVal, lastOp>>
view == <<data, senders, waker, woken, received, raced, nSend, nPoll, nextVal>>

Init == /\ data = <<>> /\ senders = 1 /\ waker = 0 /\ woken = [k \in Wakers |-> 0] /\ received = <<>>
        /\ raced = FALSE /\ nSend = 0 /\ nPoll = 0 /\ nextVal = 1 /\ lastOp = [op |-> "Init"]

Wake == IF waker # 0 THEN /\ woken' = [woken EXCEPT ![waker] = @ + 1] /\ waker' = 0
        ELSE UNCHANGED <<woken, waker>>
Proj == [data |-> data, senders |-> senders, waker |-> waker, woken |-> woken, received |-> received, raced |-> raced,
         aux |-> <<nSend, nPoll, nextVal>>]

\* send / notify: the value becomes available and the registered waker is woken
Send ==
    /\ senders > 0 /\ nSend < MaxSends
    /\ (Kind = "oneshot" => data = <<>> /\ nSend = 0)
    /\ data' = IF Kind = "notification" THEN <<1>> ELSE Append(data, nextVal)
    /\ nextVal' = nextVal + 1 /\ nSend' = nSend + 1
    /\ Wake
    \* the oneshot sender is consumed by send
    /\ senders' = IF Kind = "oneshot" THEN 0 ELSE senders
    /\ UNCHANGED <<received, nPoll, raced>>
    /\ lastOp' = [op |-> "Send", v |-> nextVal, expect |-> [res |-> "Ok"], tag |-> "send"]

CloneSender ==
    /\ Kind # "oneshot" /\ senders > 0 /\ senders < MaxSenders
    /\ senders' = senders + 1
    /\ UNCHANGED <<data, waker, woken, received, raced, nSend, nPoll, nextVal>>
    /\ lastOp' = [op |-> "Clone", expect |-> [res |-> "Ok"], tag |-> "clone"]

\* dropping the last sender wakes a waiting receiver so that it can observe the disconnection
DropSender ==
    /\ senders > 0
    /\ senders' = senders - 1
    /\ IF senders = 1 THEN Wake ELSE UNCHANGED <<woken, waker>>
    /\ UNCHANGED <<data, received, raced, nSend, nPoll, nextVal>>
    /\ lastOp' = [op |-> "DropSender", expect |-> [res |-> "Ok"],
                  tag |-> IF senders = 1 THEN "drop:last-sender" ELSE "drop"]

Poll(k) ==
    /\ nPoll < MaxPolls
    /\ nPoll' = nPoll + 1
    /\ UNCHANGED <<senders, nSend, nextVal, raced>>
    /\ IF data # <<>> THEN
            /\ data' = Tail(data) /\ received' = Append(received, Head(data))
            /\ UNCHANGED <<waker, woken>>
            /\ lastOp' = [op |-> "Poll", k |-> k, expect |-> [res |-> "Ready", v |-> Head(data)], tag |-> "poll:value"]
       ELSE IF senders = 0 THEN
            /\ UNCHANGED <<data, received, waker, woken>>
            /\ lastOp' = [op |-> "Poll", k |-> k, expect |-> [res |-> "Disconnected"], tag |-> "poll:disconnected"]
       ELSE
            /\ waker' = k /\ UNCHANGED <<data, received, woken>>
            /\ lastOp' = [op |-> "Poll", k |-> k, expect |-> [res |-> "Pending"], tag |-> "poll:pending"]

(* A send (or the drop of the last sender) issued by another thread WHILE the receiver is inside poll on an empty      *)
(* channel.  Every operation being one critical section, the pair must behave as one of the two orders:               *)
(*   poll ; other  -> Pending, waker k registered and then woken, the value (if any) is in the channel                *)
(*   other ; poll  -> the previously registered waker is woken, poll returns the value / the disconnection            *)
(* Anything else (Pending without a wake-up while the value sits in the channel) is a lost wake-up.  Terminal.        *)
PollRacing(k, other) ==
    /\ ~raced /\ data = <<>> /\ senders > 0 /\ nPoll < MaxPolls
    /\ (other = "send" => nSend < MaxSends /\ (Kind = "oneshot" => nSend = 0))
    /\ (other = "drop" => senders = 1)
    /\ raced' = TRUE /\ nPoll' = nPoll + 1 /\ nextVal' = nextVal + 1
    /\ nSend' = IF other = "send" THEN nSend + 1 ELSE nSend
    \* successor state: the order poll ; other
    /\ data' = IF other = "send" THEN (IF Kind = "notification" THEN <<1>> ELSE <<nextVal>>) ELSE data
    /\ senders' = IF other = "drop" \/ Kind = "oneshot" THEN 0 ELSE senders
    /\ waker' = 0 /\ woken' = [woken EXCEPT ![k] = @ + 1] /\ UNCHANGED received
    /\ LET first == [res |-> "Pending", woken |-> woken'[k], prev |-> IF waker # 0 /\ waker # k THEN woken[waker] ELSE 0]
           second == [res |-> IF other = "send" THEN "Ready" ELSE "Disconnected",
                      woken |-> IF waker = k THEN woken[k] + 1 ELSE woken[k],
                      prev |-> IF waker # 0 /\ waker # k THEN woken[waker] + 1 ELSE 0]
       IN lastOp' = [op |-> "PollRacing", k |-> k, other |-> other, v |-> nextVal, prevwaker |-> waker,
                     expect |-> [anyOf |-> {first, second}], tag |-> "poll:racing-" \o other]

(* A send / notify while waker k is registered, where the woken task runs AT ONCE: another thread polls the receiver the    *)
(* moment wake() is called.  Send being one critical section (the value is in the channel before or when the waker is      *)
(* called), that poll finds the value: Ready.  A Pending here is a lost wake-up (the task went back to sleep on a value     *)
(* that is about to appear and nobody will wake it again).  Terminal.                                                       *)
SendWokenRuns(k) ==
    /\ ~raced /\ waker = k /\ data = <<>> /\ senders > 0 /\ nSend < MaxSends /\ nPoll < MaxPolls
    /\ (Kind = "oneshot" => nSend = 0)
    /\ raced' = TRUE /\ nSend' = nSend + 1 /\ nPoll' = nPoll + 1 /\ nextVal' = nextVal + 1
    /\ data' = <<>> /\ received' = Append(received, IF Kind = "notification" THEN 1 ELSE nextVal)
    /\ senders' = IF Kind = "oneshot" THEN 0 ELSE senders
    /\ waker' = 0 /\ woken' = [woken EXCEPT ![k] = @ + 1]
    /\ lastOp' = [op |-> "SendWokenRuns", k |-> k, v |-> nextVal,
                  expect |-> [res |-> "Ready", woken |-> woken'[k]], tag |-> "send:woken-task-runs-at-once"]

Emit == PrintT(<<"EDGE", ToJson([s |-> Proj, o |-> lastOp', d |-> Proj'])>>)
Step == \/ (~raced /\ (Send \/ CloneSender \/ DropSender \/ \E k \in Wakers : Poll(k)))
        \/ \E k \in Wakers, other \in {"send", "drop"} : PollRacing(k, other)
        \/ \E k \in Wakers : SendWokenRuns(k)
Next == Step /\ Emit
Spec == Init /\ [][Next]_vars

\* exactly once, FIFO: what was received is a prefix of what was sent, nothing is duplicated
ExactlyOnceFifo ==
    /\ \A n \in 1..Len(received) : received[n] = (IF Kind = "notification" THEN 1 ELSE n)
       \/ Kind = "notification"
    /\ Kind # "notification" => Len(received) + Len(data) = nSend
\* no lost wake-up: a registered waker implies that there is nothing to receive and a sender is alive
NoLostWakeup == waker # 0 => (data = <<>> /\ senders > 0)
Inv == ExactlyOnceFifo /\ NoLostWakeup
=============================================================================
