----------------------------- MODULE Trace_Filter -----------------------------
(***************************************************************************)
(* Trace validation of content filtered readers (C26).  A writer publishes *)
(* samples of the related topic; on the other participant a reader on a    *)
(* content filtered topic (expression  <member> <op> %0,  op one of =, <=) *)
(* and a control reader on the related topic itself take samples.          *)
(*   - every sample the filtered reader presents was written and passes    *)
(*     the filter, and is presented once;                                  *)
(*   - at the end (network healed, quiescent) every passing sample the     *)
(*     related topic delivered (control reader) was also presented by the  *)
(*     filtered reader, whatever the grouping in which samples arrived.    *)
(* String members arrive as their rank in lexicographic order.             *)
(***************************************************************************)
EXTENDS Integers, Sequences, FiniteSets, TLC, Json, IOUtils, SequencesExt, FiniteSetsExt, Functions

Rec == ndJsonDeserialize(IOEnv.TRACE)
N == Len(Rec)

VARIABLES l, st, viol, cnt
vars == <<l, st, viol, cnt>>
Empty == [x \in {} |-> 0]
InitSt == [filter |-> [on |-> FALSE, op |-> "=", param |-> 0], filter2 |-> [on |-> FALSE, op |-> "=", param |-> 0],
           written |-> Empty, filtered |-> {}, filtered2 |-> {}, control |-> {}]
CntInit == [scenarios |-> 0, writes |-> 0, takes |-> 0, presented |-> 0, withheld |-> 0, finals |-> 0, mixedfinal |-> 0]

R(s, v, c) == [s |-> s, v |-> v, c |-> c]
Ext(f, k, v) == [x \in DOMAIN f \cup {k} |-> IF x = k THEN v ELSE f[x]]

Member(smp, field) == IF field = "val" THEN smp.val ELSE IF field = "id" THEN smp.id ELSE smp.name
Pass(f, x) == IF f.op = "=" THEN x = f.param ELSE x <= f.param

\* (a second filtered reader of the same subscriber, same expression, its own parameter: every reader is judged by ITS filter)
OnCft(s, e, c) == IF e.ok = 1 THEN R([s EXCEPT !.filter = [on |-> TRUE, op |-> e.op, param |-> e.param],
                                               !.filter2 = [on |-> e.has2 = 1, op |-> e.op, param |-> e.param2]], {}, c) ELSE R(s, {}, c)
OnWrite(s, e, c) == IF e.ok = 1 THEN R([s EXCEPT !.written = Ext(@, e.seq, [val |-> e.val, id |-> e.id, name |-> e.name])], {}, [c EXCEPT !.writes = @ + 1]) ELSE R(s, {}, c)

OnTake(s, e, c) ==
    LET seqs == {e.samples[k].seq : k \in 1..Len(e.samples)}
        unknown == {q \in seqs : q \notin DOMAIN s.written}
        known == seqs \ unknown
        wrongdata == {k \in 1..Len(e.samples) : e.samples[k].seq \in known /\
                          s.written[e.samples[k].seq] # [val |-> e.samples[k].val, id |-> e.samples[k].id, name |-> e.samples[k].name]}
    IN IF ~s.filter.on THEN R(s, {}, c)
       ELSE IF e.which = "filtered2" THEN
         LET failing == {q \in known : ~Pass(s.filter2, Member(s.written[q], e.field))}
             again == seqs \cap s.filtered2
             twice == Len(e.samples) # Cardinality(seqs)
         IN R([s EXCEPT !.filtered2 = @ \cup seqs],
              (IF unknown # {} THEN {"C26:presented-sample-never-written"} ELSE {})
              \cup (IF wrongdata # {} THEN {"C26:presented-sample-differs-from-written"} ELSE {})
              \cup (IF failing # {} THEN {"C26:filtered-reader-presented-sample-failing-the-filter"} ELSE {})
              \cup (IF again # {} \/ twice THEN {"C26:sample-presented-twice"} ELSE {}),
              [c EXCEPT !.takes = @ + 1, !.presented = @ + Cardinality(seqs)])
       ELSE IF e.which = "filtered" THEN
         LET failing == {q \in known : ~Pass(s.filter, Member(s.written[q], e.field))}
             again == seqs \cap s.filtered
             twice == Len(e.samples) # Cardinality(seqs)
         IN R([s EXCEPT !.filtered = @ \cup seqs],
              (IF unknown # {} THEN {"C26:presented-sample-never-written"} ELSE {})
              \cup (IF wrongdata # {} THEN {"C26:presented-sample-differs-from-written"} ELSE {})
              \cup (IF failing # {} THEN {"C26:filtered-reader-presented-sample-failing-the-filter"} ELSE {})
              \cup (IF again # {} \/ twice THEN {"C26:sample-presented-twice"} ELSE {}),
              [c EXCEPT !.takes = @ + 1, !.presented = @ + Cardinality(seqs)])
       ELSE
         LET ctl == s.control \cup known
             should == {q \in ctl : Pass(s.filter, Member(s.written[q], e.field))}
             missing == should \ s.filtered
             should2 == IF s.filter2.on THEN {q \in ctl : Pass(s.filter2, Member(s.written[q], e.field))} ELSE {}
             missing2 == should2 \ s.filtered2
             mixed == should # {} /\ should # ctl
         IN R([s EXCEPT !.control = ctl],
              IF e.final = 1 /\ (missing # {} \/ missing2 # {}) THEN {"C26:passing-sample-not-presented"} ELSE {},
              IF e.final = 1 THEN [c EXCEPT !.finals = @ + 1, !.withheld = @ + Cardinality(ctl \ should), !.mixedfinal = @ + (IF mixed THEN 1 ELSE 0)] ELSE c)

Apply(s, e, c) ==
    CASE e.ev = "Reset" -> R(InitSt, {}, [c EXCEPT !.scenarios = @ + 1])
      [] e.ev = "CftReaders" -> OnCft(s, e, c)
      [] e.ev = "WriteF" -> OnWrite(s, e, c)
      [] e.ev = "TakeF" -> OnTake(s, e, c)
      [] e.ev = "SimError" -> R(s, {"C26:simulation-hang-or-panic"}, c)
      [] OTHER -> R(s, {}, c)

Init == l = 1 /\ st = InitSt /\ viol = <<>> /\ cnt = CntInit
Next ==
    /\ l <= N
    /\ LET r == Apply(st, Rec[l], cnt)
       IN /\ st' = r.s /\ cnt' = r.c
          /\ viol' = viol \o SetToSeq({[line |-> l, rule |-> x, t |-> Rec[l].t] : x \in r.v})
    /\ l' = l + 1
Spec == Init /\ [][Next]_vars
Done == l = N + 1 => PrintT(<<"TRACE-RESULT", ToJson([lines |-> N, violations |-> viol, counters |-> cnt])>>)
Accepted == TLCGet("stats").diameter - 1 = N
=============================================================================
