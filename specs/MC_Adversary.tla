----------------------------- MODULE MC_Adversary -----------------------------
(* TLC enumerates the message space of Adversary.tla: one CASE line per message *)
EXTENDS Adversary
VARIABLE m
MCInit == m \in Messages /\ Init
MCNext == UNCHANGED <<m, alive, serving, received>>
MCSpec == MCInit /\ [][MCNext]_<<m, alive, serving, received>>
Emit == PrintT(<<"CASE", ToJson(m)>>)
=============================================================================
