\* C25: time based filter with dispose and unregister samples held in the cache (a not-alive sample is presented too: it filters and is filtered)
SPECIFICATION Spec
VIEW view
INVARIANT Inv
CHECK_DEADLOCK FALSE
CONSTANTS
  Instances = {1}
  Writers = {1}
  Timestamps = {1, 2, 3, 4, 5}
  Depth = 0
  MaxS = 0
  MaxI = 0
  MaxSPI = 0
  BySource = FALSE
  Exclusive = FALSE
  StrengthOf <- Strength0
  MinSep = 2
  Kinds = {"ALIVE", "DISPOSED", "UNREGISTERED"}
  MaxAdds = 4
  MaxAccess = 1
  AccessKinds = {"Read"}
  MaskChoices <- MaskAny
  MaxChoices = {0}
  UseInstArg = FALSE
  MaxUnmatch = 0
