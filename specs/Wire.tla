-------------------------------- MODULE Wire --------------------------------
(***************************************************************************)
(* Abstract RTPS messages and the lengths of their wire encoding (C08).    *)
(*                                                                         *)
(* A message is a header (protocol version, vendor, GUID prefix) and a     *)
(* sequence of submessages.  Each submessage kind is a record of its       *)
(* fields; 64 bit values are named (the harness maps the names to numbers, *)
(* TLC never computes with them); sets are a base and a set of offsets.    *)
(* EncLen gives octetsToNextHeader of every submessage as a function of    *)
(* its fields (RTPS 2.x PSM, 9.4.5): this is what the length field on the  *)
(* wire must equal.  A submessage longer than 65535 octets is only         *)
(* representable as the LAST one of a message, with length field 0.        *)
(* Round trip: decoding the encoding of a message yields the same header   *)
(* and the same submessages, for both byte orders on decode.               *)
(***************************************************************************)
EXTENDS Integers, Sequences, FiniteSets, TLC, Json

SN == {"ONE", "TWO", "N255", "N256", "BIG", "BIGM1", "MAXM300", "MAX"}      \* valid sequence numbers (MAX only where nothing is added to it)
SNBase == {"ONE", "TWO", "BIG", "BIGM1", "MAXM300"}                      \* bases of sets: base + 255 must be representable
U32 == {"ONE", "TWO", "MAX16", "BIG", "MAX31", "MAX32"}
Count == {"ZERO", "ONE", "MAX31"}
Offsets == {{}, {0}, {1}, {31}, {32}, {255}, {0, 31, 32, 255}, {0, 1, 2, 3, 4, 5, 6, 7}, {63, 64, 65}}
Flags == {"T", "F"}
Entity == {"user_rw", "builtin", "unknown"}                                \* (readerId, writerId) pairs
PayloadLen == {0, 1, 2, 3, 4, 5, 8, 1000, 65000, 65500, 65515, 65516, 65535, 65536, 70000, 200000}
InlineQos == {"none", "empty", "keyhash", "status", "both", "odd"}

NumBits(S) == IF S = {} THEN 0 ELSE (CHOOSE m \in S : \A x \in S : x <= m) + 1
Words(S) == (NumBits(S) + 31) \div 32
Pad4(n) == ((n + 3) \div 4) * 4
\* inline QoS: parameters (4 octet header + value padded to 4) and the sentinel
IQLen(iq) == CASE iq = "none" -> 0 [] iq = "empty" -> 4 [] iq = "keyhash" -> 20 + 4 [] iq = "status" -> 8 + 4
               [] iq = "both" -> 20 + 8 + 4 [] iq = "odd" -> (4 + Pad4(5)) + 4

EncLen(s) ==
    CASE s.k = "ACKNACK" -> 4 + 4 + (8 + 4 + 4 * Words(s.set)) + 4
      [] s.k = "HEARTBEAT" -> 4 + 4 + 8 + 8 + 4
      [] s.k = "GAP" -> 4 + 4 + 8 + (8 + 4 + 4 * Words(s.set))
      [] s.k = "NACK_FRAG" -> 4 + 4 + 8 + (4 + 4 + 4 * Words(s.set)) + 4
      [] s.k = "HEARTBEAT_FRAG" -> 4 + 4 + 8 + 4 + 4
      [] s.k = "INFO_TS" -> IF s.invalidate = "T" THEN 0 ELSE 8
      [] s.k = "INFO_DST" -> 12
      [] s.k = "INFO_SRC" -> 4 + 2 + 2 + 12
      [] s.k = "DATA" -> 2 + 2 + 4 + 4 + 8 + IQLen(s.iq) + (IF s.dk = "neither" THEN 0 ELSE s.plen)
      [] s.k = "DATA_FRAG" -> 2 + 2 + 4 + 4 + 8 + 4 + 2 + 2 + 4 + IQLen(s.iq) + s.plen
\* the length field on the wire: 0 stands for "to the end of the message", allowed for the last submessage only
LenField(s, last) == IF EncLen(s) <= 65535 THEN EncLen(s) ELSE IF last THEN 0 ELSE -1     \* -1: not representable
Representable(subs) == \A n \in 1..Len(subs) : LenField(subs[n], n = Len(subs)) >= 0
MessageLen(subs) == 20 + 4 * Len(subs) + (IF subs = <<>> THEN 0 ELSE
                         LET RECURSIVE Sum(_) Sum(n) == IF n = 0 THEN 0 ELSE EncLen(subs[n]) + Sum(n - 1) IN Sum(Len(subs)))

D(k, r) == [f \in DOMAIN r \cup {"k", "ent"} |-> IF f = "k" THEN k ELSE IF f \in DOMAIN r THEN r[f] ELSE "user_rw"]
Kinds == {
  [d |-> D("ACKNACK", [base |-> "ONE", set |-> {}, count |-> "ONE", final |-> "F"]),
   a |-> [base |-> SNBase, set |-> Offsets, count |-> Count, final |-> {"T"}, ent |-> Entity]],
  [d |-> D("HEARTBEAT", [first |-> "ONE", last |-> "TWO", count |-> "ONE", final |-> "F", liveliness |-> "F"]),
   a |-> [first |-> {"TWO"}, last |-> SN, count |-> Count, final |-> {"T"}, liveliness |-> {"T"}, ent |-> Entity]],
  [d |-> D("GAP", [start |-> "ONE", base |-> "TWO", set |-> {}]),
   a |-> [start |-> SN, base |-> SNBase, set |-> Offsets, ent |-> Entity]],
  [d |-> D("NACK_FRAG", [sn |-> "ONE", fbase |-> "ONE", set |-> {0}, count |-> "ONE"]),
   a |-> [sn |-> SN, fbase |-> {"TWO", "MAX16", "BIG"}, set |-> Offsets, count |-> Count, ent |-> Entity]],
  [d |-> D("HEARTBEAT_FRAG", [sn |-> "ONE", lastfrag |-> "TWO", count |-> "ONE"]),
   a |-> [sn |-> SN, lastfrag |-> U32, count |-> Count, ent |-> Entity]],
  [d |-> D("INFO_TS", [invalidate |-> "F", sec |-> "BIG", frac |-> "ONE"]),
   a |-> [invalidate |-> {"T"}, sec |-> U32, frac |-> U32]],
  [d |-> D("INFO_DST", [prefix |-> "a"]), a |-> [prefix |-> {"zero", "ff"}]],
  [d |-> D("INFO_SRC", [prefix |-> "a"]), a |-> [prefix |-> {"zero", "ff"}]],
  [d |-> D("DATA", [sn |-> "ONE", iq |-> "none", dk |-> "data", plen |-> 8]),
   a |-> [sn |-> SN, iq |-> InlineQos, dk |-> {"key", "neither"}, plen |-> PayloadLen, ent |-> Entity]],
  [d |-> D("DATA_FRAG", [sn |-> "ONE", iq |-> "none", key |-> "F", fstart |-> "ONE", fcount |-> "ONE", fsize |-> "MAX16", ssize |-> "BIG", plen |-> 8]),
   a |-> [sn |-> SN, iq |-> InlineQos, key |-> {"T"}, fstart |-> U32, fcount |-> {"TWO", "MAX16"}, fsize |-> {"ONE", "TWO"}, ssize |-> U32,
          plen |-> PayloadLen, ent |-> Entity]] }

Variants1(d, a) == UNION {{[d EXCEPT ![f] = v] : v \in a[f]} : f \in DOMAIN a}
Variants2(d, a) == {d} \cup Variants1(d, a) \cup UNION {Variants1(d1, a) : d1 \in Variants1(d, a)}
Submessages == UNION {Variants2(k.d, k.a) : k \in Kinds}
Default(kind) == (CHOOSE k \in Kinds : k.d.k = kind).d

Expect(subs) == [lens |-> [n \in 1..Len(subs) |-> LenField(subs[n], n = Len(subs))], total |-> MessageLen(subs)]
Msg(prefix, subs) == [prefix |-> prefix, subs |-> subs, e |-> Expect(subs)]
\* every submessage alone, in front of another one (its length field must then be exact) and behind an INFO_TS
Messages == {Msg("a", <<s>>) : s \in Submessages}
            \cup {Msg("ff", <<s, Default("HEARTBEAT")>>) : s \in {x \in Submessages : EncLen(x) <= 65535}}
            \cup {Msg("zero", <<Default("INFO_TS"), s>>) : s \in UNION {Variants1(k.d, k.a) : k \in Kinds}}

AllRepresentable == \A m \in Messages : Representable(m.subs)
=============================================================================
