-------------------------------- MODULE Qos --------------------------------
(***************************************************************************)
(* QoS validation of one entity (C37): consistency and immutability rules  *)
(* of create / set_qos / enable, what get_qos returns and what a remote    *)
(* participant sees in its built-in topics.                                *)
(*                                                                         *)
(* A QoS value is a record of the policies the rules talk about:           *)
(*   rel   reliability kind        (0 best effort, 1 reliable)   immutable *)
(*   hist  history                 (0 KEEP_ALL, n KEEP_LAST n)   immutable *)
(*   mspi  max_samples_per_instance (0 unlimited)                immutable *)
(*   ms    max_samples              (0 unlimited)                immutable *)
(*   dl    deadline period in s     (0 infinite)                 mutable   *)
(*   tbf   time based filter separation in s (reader)            mutable   *)
(*   nrep  number of offered data representations (writer)       mutable   *)
(*   ud    user_data / topic_data / group_data (2: 70 000 octets) mutable  *)
(*   pres  presentation (0 instance, 1 topic + coherent)  (group) immutable*)
(*   part  partition    (0 none, 1 {"A"})                 (group) mutable  *)
(* Kind is one of writer, reader, topic, publisher, subscriber,            *)
(* participant.  One action per public call.                               *)
(*                                                                         *)
(* dflt is the default QoS the parent factory holds for the kind           *)
(* (set_default_datawriter_qos of the publisher, ... , set_default_topic_  *)
(* qos of the participant): it is what QosKind::Default means in create    *)
(* and set_qos; a refused set_default_*_qos leaves it unchanged, so it is  *)
(* always consistent.                                                      *)
(***************************************************************************)
EXTENDS Integers, Sequences, FiniteSets, TLC, Json

CONSTANTS Kind, Values, CanBeDisabled, MaxOps,
          DefaultValues   \* values offered to set_default_*_qos ({}: the factory default is never changed)

VARIABLES ex, en, qos, dflt, nOps, lastOp
vars == <<ex, en, qos, dflt, nOps, lastOp>>
view == <<ex, en, qos, dflt, nOps>>

Default == [rel |-> IF Kind = "writer" THEN 1 ELSE 0, hist |-> 1, mspi |-> 0, ms |-> 0, dl |-> 0, tbf |-> 0,
            nrep |-> 0, ud |-> 0, pres |-> 0, part |-> 0]

Inf(x) == IF x = 0 THEN 1000000 ELSE x        \* 0 encodes unlimited / infinite
LimitsOk(q) == /\ ~(Inf(q.ms) < Inf(q.mspi))
               /\ (q.hist # 0 => q.hist <= Inf(q.mspi))
Consistent(q) ==
    CASE Kind = "writer" -> LimitsOk(q) /\ q.nrep <= 1
      [] Kind = "reader" -> LimitsOk(q) /\ Inf(q.dl) >= q.tbf
      [] Kind = "topic"  -> LimitsOk(q)
      [] OTHER -> TRUE
ImmutableChanged(a, b) ==
    CASE Kind \in {"writer", "reader", "topic"} -> <<a.rel, a.hist, a.mspi, a.ms>> # <<b.rel, b.hist, b.mspi, b.ms>>
      [] Kind \in {"publisher", "subscriber"} -> a.pres # b.pres
      [] OTHER -> FALSE

\* what a remote participant sees of an enabled entity (the policies carried by the built-in topic of the kind)
Announced(q) ==
    CASE Kind = "writer" -> [rel |-> q.rel, dl |-> q.dl, ud |-> q.ud]
      [] Kind = "reader" -> [rel |-> q.rel, dl |-> q.dl, tbf |-> q.tbf, ud |-> q.ud]
      [] Kind = "topic"  -> [rel |-> q.rel, dl |-> q.dl, hist |-> q.hist, mspi |-> q.mspi, ms |-> q.ms, ud |-> q.ud]
      [] Kind \in {"publisher", "subscriber"} -> [pres |-> q.pres, part |-> q.part, ud |-> q.ud]
      [] OTHER -> [ud |-> q.ud]

Init == /\ ex = (Kind = "participant") /\ en = (Kind = "participant") /\ qos = Default /\ dflt = Default
        /\ nOps = 0 /\ lastOp = [op |-> "Init"]

Proj == [ex |-> ex, en |-> en,
         qos |-> IF ex THEN qos ELSE [none |-> 0],
         ann |-> IF ex /\ en THEN Announced(qos) ELSE [none |-> 0],
         dflt |-> dflt,
         aux |-> nOps]

\* operations that leave the entity with user data too large for one discovery parameter (> 65535 octets) carry their own tag
Op(name, args, res, tag) == [op |-> name, a |-> args, expect |-> [res |-> res], tag |-> IF qos'.ud = 2 /\ ex' THEN tag \o ":huge-user-data" ELSE tag]
Tick == nOps < MaxOps /\ nOps' = nOps + 1

Create(q, e) ==
    /\ ~ex /\ Tick /\ UNCHANGED dflt
    /\ IF Consistent(q)
       THEN ex' = TRUE /\ en' = e /\ qos' = q /\ lastOp' = Op("Create", [q |-> q, en |-> e], "Ok", "create:accepted")
       ELSE UNCHANGED <<ex, en, qos>> /\ lastOp' = Op("Create", [q |-> q, en |-> e], "InconsistentPolicy", "create:inconsistent")

\* create with QosKind::Default: the factory default, which is consistent by construction
CreateDefault(e) ==
    /\ ~ex /\ Tick /\ Kind # "participant" /\ UNCHANGED dflt
    /\ ex' = TRUE /\ en' = e /\ qos' = dflt
    /\ lastOp' = Op("CreateDefault", [en |-> e], "Ok", IF dflt = Default THEN "create:default" ELSE "create:changed-factory-default")

\* set_default_<kind>_qos of the parent: all-or-nothing like set_qos, there is no immutability (it is not an entity's QoS)
SetDefault(q) ==
    /\ Tick /\ Kind # "participant" /\ UNCHANGED <<ex, en, qos>>
    /\ IF Consistent(q)
       THEN dflt' = q /\ lastOp' = Op("SetDefault", [q |-> q], "Ok", "setfactorydefault:accepted")
       ELSE dflt' = dflt /\ lastOp' = Op("SetDefault", [q |-> q], "InconsistentPolicy", "setfactorydefault:inconsistent")
\* set_default_<kind>_qos(QosKind::Default) goes back to the built-in default
ResetDefault ==
    /\ Tick /\ Kind # "participant" /\ UNCHANGED <<ex, en, qos>>
    /\ dflt' = Default /\ lastOp' = Op("ResetDefault", [x |-> 0], "Ok", "setfactorydefault:reset")

SetQosAs(name, q, args, pre) ==
    /\ ex /\ Tick /\ UNCHANGED <<ex, en, dflt>>
    /\ IF ~Consistent(q) /\ en /\ ImmutableChanged(qos, q)
       THEN qos' = qos /\ lastOp' = Op(name, args, [anyOf |-> {"InconsistentPolicy", "ImmutablePolicy"}], pre \o ":inconsistent-and-immutable")
       ELSE IF ~Consistent(q)
       THEN qos' = qos /\ lastOp' = Op(name, args, "InconsistentPolicy", pre \o ":inconsistent")
       ELSE IF en /\ ImmutableChanged(qos, q)
       THEN qos' = qos /\ lastOp' = Op(name, args, "ImmutablePolicy", pre \o ":immutable")
       ELSE qos' = q /\ lastOp' = Op(name, args, "Ok",
                                     IF ~en THEN (IF ImmutableChanged(qos, q) THEN pre \o ":accepted-immutable-before-enable" ELSE pre \o ":accepted-before-enable")
                                     ELSE IF q = qos THEN pre \o ":accepted-same" ELSE pre \o ":accepted-mutable")
SetQos(q) == SetQosAs("SetQos", q, [q |-> q], "set")
\* set_qos(QosKind::Default): the factory default of the kind under the same rules
SetQosDefault == SetQosAs("SetQosDefault", dflt, [x |-> 0], "setdefault")

Enable ==
    /\ ex /\ Tick /\ Kind \in CanBeDisabled
    /\ en' = TRUE /\ UNCHANGED <<ex, qos, dflt>>
    /\ lastOp' = Op("Enable", [x |-> 0], "Ok", IF en THEN "enable:again" ELSE "enable")

Emit == PrintT(<<"EDGE", ToJson([s |-> Proj, o |-> lastOp', d |-> Proj'])>>)
Step ==
    \/ \E q \in Values, e \in (IF Kind \in CanBeDisabled THEN BOOLEAN ELSE {TRUE}) : Create(q, e)
    \/ \E q \in Values : SetQos(q)
    \/ SetQosDefault
    \/ Enable
    \/ \E e \in (IF Kind \in CanBeDisabled THEN BOOLEAN ELSE {TRUE}) : CreateDefault(e)
    \/ (DefaultValues # {} /\ ((\E q \in DefaultValues : SetDefault(q)) \/ ResetDefault))
Next == Step /\ Emit
Spec == Init /\ [][Next]_vars

\* C37 on the model: the QoS an entity holds is always consistent
AlwaysConsistent == (ex => Consistent(qos)) /\ Consistent(dflt)
\* an enabled entity never changes an immutable policy
ImmutableKept == [][(ex /\ en /\ ex') => ~ImmutableChanged(qos, qos')]_vars
=============================================================================
