------------------------------- MODULE MC_Wire -------------------------------
EXTENDS Wire
VARIABLE m
Init == m \in Messages
Next == UNCHANGED m
Spec == Init /\ [][Next]_m
Emit == PrintT(<<"CASE", ToJson(m)>>)
Inv == Representable(m.subs) /\ m.e.total >= 20 /\ Emit
=============================================================================
