SPECIFICATION Spec
VIEW view
INVARIANT TreeConsistent
CHECK_DEADLOCK FALSE
CONSTANTS
  MaxPubs = 2
  MaxSubs = 2
  MaxTopics = 2
  MaxWriters = 2
  MaxCfts = 2
  MaxReaders = 2
  TopicNames = {"A", "B"}
  MaxOps = 16
  Warm = 0
  ChurnAt = {}
