\* C25: time based filter over two instances with takes
SPECIFICATION Spec
VIEW view
INVARIANT Inv
CHECK_DEADLOCK FALSE
CONSTANTS
  Instances = {1, 2}
  Writers = {1}
  Timestamps = {1, 2, 3}
  Depth = 0
  MaxS = 0
  MaxI = 0
  MaxSPI = 0
  BySource = FALSE
  Exclusive = FALSE
  StrengthOf <- Strength0
  MinSep = 2
  Kinds = {"ALIVE"}
  MaxAdds = 4
  MaxAccess = 1
  AccessKinds = {"Read", "Take"}
  MaskChoices <- MaskAny
  MaxChoices = {0}
  UseInstArg = FALSE
  MaxUnmatch = 0
