------------------------------ MODULE MC_Rtps ------------------------------
EXTENDS Rtps
R1 == {1}
R2 == {1, 2}
AllReliable == [r \in Readers |-> TRUE]
AllTL == [r \in Readers |-> TRUE]
AllVolatile == [r \in Readers |-> FALSE]
MixedRel == [r \in Readers |-> r = 1]      \* reader 1 reliable, reader 2 best effort
MixedDur == [r \in Readers |-> r = 1]      \* reader 1 transient local, reader 2 volatile
=============================================================================
