\* C21: BY_SOURCE_TIMESTAMP ordering, equal and out-of-order timestamps, two writers
SPECIFICATION Spec
VIEW view
INVARIANT Inv
CHECK_DEADLOCK FALSE
CONSTANTS
  Instances = {1, 2}
  Writers = {1, 2}
  Timestamps = {1, 2, 3}
  Depth = 0
  MaxS = 0
  MaxI = 0
  MaxSPI = 0
  BySource = TRUE
  Exclusive = FALSE
  StrengthOf <- Strength0
  MinSep = 0
  Kinds = {"ALIVE"}
  MaxAdds = 4
  MaxAccess = 1
  AccessKinds = {"Read"}
  MaskChoices <- MaskAny
  MaxChoices = {0}
  UseInstArg = FALSE
  MaxUnmatch = 0
