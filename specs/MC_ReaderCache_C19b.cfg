\* C19: KEEP_LAST(2) with max_samples_per_instance 2 and dispose samples: the per-instance limit still holds
SPECIFICATION Spec
VIEW view
INVARIANT Inv
CHECK_DEADLOCK FALSE
CONSTANTS
  Instances = {1}
  Writers = {1}
  Timestamps = {1}
  Depth = 2
  MaxS = 0
  MaxI = 0
  MaxSPI = 2
  BySource = FALSE
  Exclusive = FALSE
  StrengthOf <- Strength0
  MinSep = 0
  Kinds = {"ALIVE", "DISPOSED"}
  MaxAdds = 6
  MaxAccess = 2
  AccessKinds = {"Take"}
  MaskChoices <- MaskAny
  MaxChoices = {0, 1}
  UseInstArg = FALSE
  MaxUnmatch = 0
