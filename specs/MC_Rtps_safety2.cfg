\* safety: a reliable TRANSIENT_LOCAL reader and a best-effort VOLATILE reader
\* 2 faults, 1 removal, 3 datagrams in flight
SPECIFICATION Spec
INVARIANT Safety
CHECK_DEADLOCK FALSE
CONSTANTS
  MaxSN = 3
  Readers <- R2
  Reliable <- MixedRel
  TransientLocal <- MixedDur
  MaxFrags = 1
  MaxFaults = 2
  MaxRemove = 1
  MaxNet = 2
  JumpOnGap = FALSE
