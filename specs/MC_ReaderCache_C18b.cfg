\* C18: KEEP_LAST(1) with max_samples = 2 over 2 instances; KEEP_LAST never rejects for depth
SPECIFICATION Spec
VIEW view
INVARIANT Inv
CHECK_DEADLOCK FALSE
CONSTANTS
  Instances = {1, 2}
  Writers = {1}
  Timestamps = {1}
  Depth = 1
  MaxS = 2
  MaxI = 0
  MaxSPI = 1
  BySource = FALSE
  Exclusive = FALSE
  StrengthOf <- Strength0
  MinSep = 0
  Kinds = {"ALIVE"}
  MaxAdds = 5
  MaxAccess = 1
  AccessKinds = {"Read", "Take"}
  MaskChoices <- MaskAny
  MaxChoices = {0, 1}
  UseInstArg = FALSE
  MaxUnmatch = 0
