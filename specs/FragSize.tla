------------------------------ MODULE FragSize ------------------------------
(* RtpsUdpTransportParticipantFactory::set_fragment_size (C38): accepts exactly 8..=65000,
   BadParameter otherwise, the previous setting is kept on error. *)
EXTENDS Integers, TLC, Json
CONSTANTS Values, MaxOps     \* Values: value classes; 2000000000 stands for usize::MAX, 2000000001 for 2^32 + 500
VARIABLES cur, n, lastOp
vars == <<cur, n, lastOp>>
view == <<cur, n>>
Default == 1344
Init == cur = Default /\ n = 0 /\ lastOp = [op |-> "Init"]
Accept(v) == v >= 8 /\ v <= 65000
Set(v) ==
    /\ n < MaxOps /\ n' = n + 1
    /\ cur' = IF Accept(v) THEN v ELSE cur
    /\ lastOp' = [op |-> "Set", v |-> v, expect |-> [res |-> IF Accept(v) THEN "Ok" ELSE "BadParameter"],
                  tag |-> IF Accept(v) THEN "set:accepted" ELSE "set:rejected"]
Proj == [cur |-> cur, aux |-> n]
Emit == PrintT(<<"EDGE", ToJson([s |-> Proj, o |-> lastOp', d |-> Proj'])>>)
Next == (\E v \in Values : Set(v)) /\ Emit
Spec == Init /\ [][Next]_vars
InRange == Accept(cur)
=============================================================================
