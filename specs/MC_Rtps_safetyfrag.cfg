\* safety of the envelope: 3 changes, <= 2 fragments, 1 reliable late-joining TRANSIENT_LOCAL reader,
\* 2 faults, 1 removal, 3 datagrams in flight
SPECIFICATION Spec
INVARIANT Safety
CHECK_DEADLOCK FALSE
CONSTANTS
  MaxSN = 2
  Readers <- R1
  Reliable <- AllReliable
  TransientLocal <- AllTL
  MaxFrags = 2
  MaxFaults = 2
  MaxRemove = 1
  MaxNet = 3
  JumpOnGap = FALSE
