\* random walks through a larger reader cache model (see MC_ReaderCache_C22_walk.cfg), other QoS
SPECIFICATION Spec
VIEW view
INVARIANT Inv
CHECK_DEADLOCK FALSE
CONSTANTS
  Instances = {1, 2, 3}
  Writers = {1, 2}
  Timestamps = {1}
  Depth = 0
  MaxS = 3
  MaxI = 2
  MaxSPI = 2
  BySource = FALSE
  Exclusive = FALSE
  StrengthOf <- Strength0
  MinSep = 0
  Kinds = {"ALIVE", "DISPOSED", "UNREGISTERED", "DISPOSED_UNREGISTERED"}
  MaxAdds = 10
  MaxAccess = 4
  AccessKinds = {"Read", "Take"}
  MaskChoices <- MaskSome
  MaxChoices = {0, 1, 2}
  UseInstArg = TRUE
  MaxUnmatch = 1
