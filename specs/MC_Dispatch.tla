---------------------------- MODULE MC_Dispatch ----------------------------
(***************************************************************************)
(* Listener dispatch (C33): each communication status change is delivered  *)
(* to exactly one listener, the most specific one whose mask enables the   *)
(* status: the entity's own, else its publisher's / subscriber's, else the *)
(* participant's, else nobody.  New data is announced as DATA_ON_READERS   *)
(* on the subscriber when enabled there, as DATA_AVAILABLE otherwise.      *)
(* TLC enumerates all mask configurations for the status kinds that can be *)
(* raised by real events; the harness raises each in the simulation.       *)
(***************************************************************************)
EXTENDS Integers, Sequences, FiniteSets, TLC, Json

ReaderKinds == {"SubscriptionMatched", "DataAvailable", "RequestedDeadlineMissed", "SampleRejected", "RequestedIncompatibleQos"}
WriterKinds == {"PublicationMatched", "OfferedDeadlineMissed", "OfferedIncompatibleQos"}

Dispatch(k, em, gm, pm, dor) ==
    LET endpoint == IF k \in ReaderKinds THEN "reader" ELSE "writer"
        group == IF k \in ReaderKinds THEN "subscriber" ELSE "publisher"
    IN IF k = "DataAvailable" /\ dor THEN [level |-> "subscriber", kind |-> "DataOnReaders"]
       ELSE IF em THEN [level |-> endpoint, kind |-> k]
       ELSE IF gm THEN [level |-> group, kind |-> k]
       ELSE IF pm THEN [level |-> "participant", kind |-> k]
       ELSE [level |-> "none", kind |-> k]

VARIABLE c
Init == c \in [k : ReaderKinds \cup WriterKinds, em : BOOLEAN, gm : BOOLEAN, pm : BOOLEAN, dor : BOOLEAN]
        /\ (c.dor => c.k = "DataAvailable")
Next == UNCHANGED c
Spec == Init /\ [][Next]_c
Emit == PrintT(<<"CASE", ToJson([c |-> c, to |-> Dispatch(c.k, c.em, c.gm, c.pm, c.dor)])>>)
\* exactly one receiver: the dispatch is a function (trivially) and "none" only if no mask enables the status
OnlyNoneWhenDisabled == Dispatch(c.k, c.em, c.gm, c.pm, c.dor).level = "none" <=> (~c.em /\ ~c.gm /\ ~c.pm /\ ~c.dor)
=============================================================================
