---------------------------- MODULE MC_Dispatch ----------------------------
(***************************************************************************)
(* Listener dispatch (C33): each communication status change is delivered  *)
(* to exactly one listener, the most specific one whose mask enables the   *)
(* status: the entity's own, else its publisher's / subscriber's, else the *)
(* participant's, else nobody.  New data is announced as DATA_ON_READERS   *)
(* on the subscriber when enabled there, as DATA_AVAILABLE otherwise.      *)
(* TLC enumerates all mask configurations for the status kinds that can be *)
(* raised by real events; the harness raises each in the simulation.       *)
(***************************************************************************)
EXTENDS Integers, Sequences, FiniteSets, TLC, Json

ReaderKinds == {"SubscriptionMatched", "DataAvailable", "RequestedDeadlineMissed", "SampleRejected", "RequestedIncompatibleQos"}
WriterKinds == {"PublicationMatched", "OfferedDeadlineMissed", "OfferedIncompatibleQos"}

Dispatch(k, em, gm, pm, dor) ==
    LET endpoint == IF k \in ReaderKinds THEN "reader" ELSE "writer"
        group == IF k \in ReaderKinds THEN "subscriber" ELSE "publisher"
    IN IF k = "DataAvailable" /\ dor THEN [level |-> "subscriber", kind |-> "DataOnReaders"]
       ELSE IF em THEN [level |-> endpoint, kind |-> k]
       ELSE IF gm THEN [level |-> group, kind |-> k]
       ELSE IF pm THEN [level |-> "participant", kind |-> k]
       ELSE [level |-> "none", kind |-> k]

(* How the listeners got there: installed when the entity is created, installed later with set_listener, or       *)
(* installed at creation and removed again with set_listener(None, no status) at the endpoint / the group level:  *)
(* a removed listener has no mask any more, the status goes to the next level.                                     *)
How == {"create", "set", "removed-endpoint", "removed-group"}
Eff(cfg) == [em |-> cfg.em /\ cfg.how # "removed-endpoint", gm |-> cfg.gm /\ cfg.how # "removed-group",
             dor |-> cfg.dor /\ cfg.how # "removed-group"]

VARIABLE c
Init == c \in [k : ReaderKinds \cup WriterKinds, em : BOOLEAN, gm : BOOLEAN, pm : BOOLEAN, dor : BOOLEAN, how : How]
        /\ (c.dor => c.k = "DataAvailable")
        /\ (c.how = "removed-endpoint" => c.em) /\ (c.how = "removed-group" => (c.gm \/ c.dor))
Next == UNCHANGED c
Spec == Init /\ [][Next]_c
Emit == PrintT(<<"CASE", ToJson([c |-> c, to |-> Dispatch(c.k, Eff(c).em, Eff(c).gm, c.pm, Eff(c).dor)])>>)
\* exactly one receiver: the dispatch is a function (trivially) and "none" only if no mask enables the status
OnlyNoneWhenDisabled == Dispatch(c.k, Eff(c).em, Eff(c).gm, c.pm, Eff(c).dor).level = "none" <=> (~Eff(c).em /\ ~Eff(c).gm /\ ~c.pm /\ ~Eff(c).dor)
=============================================================================
