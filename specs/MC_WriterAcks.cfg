SPECIFICATION Spec
VIEW view
INVARIANT Sound
CHECK_DEADLOCK FALSE
CONSTANTS
  Readers = {1, 2}
  Stranger = 3
  MaxSN = 2
  MaxOps = 5
