---------------------------- MODULE MC_Partition ----------------------------
(* Enumerates pairs of partition name lists (<= 2 names from a small alphabet with wildcards) with
   the verdict of Compat!PartitionMatch; pattern-against-pattern pairs are outside the domain. *)
EXTENDS Compat
NamesAlphabet == {<<>>, <<"a">>, <<"b">>, <<"a", "b">>, <<"a", "*">>, <<"?">>, <<"*">>, <<"?", "b">>}
Lists == {l \in SUBSET NamesAlphabet : Cardinality(l) <= 2}
VARIABLES pa, pb
InDomain(a, b) == ~\E x \in Names(a), y \in Names(b) : IsPattern(x) /\ IsPattern(y)
Init == pa \in Lists /\ pb \in Lists /\ InDomain(pa, pb)
Next == UNCHANGED <<pa, pb>>
Spec == Init /\ [][Next]_<<pa, pb>>
Str(n) == n   \* names are printed as sequences of one-character strings
Emit == PrintT(<<"CASE", ToJson([a |-> pa, b |-> pb, m |-> PartitionMatch(pa, pb)])>>)
Symmetric == PartitionMatch(pa, pb) = PartitionMatch(pb, pa)
=============================================================================
