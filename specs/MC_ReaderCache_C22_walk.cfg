\* random walks through a larger reader cache model: two instances, two writers, all change kinds, KEEP_LAST 2, all accesses
SPECIFICATION Spec
VIEW view
INVARIANT Inv
CHECK_DEADLOCK FALSE
CONSTANTS
  Instances = {1, 2}
  Writers = {1, 2}
  Timestamps = {1, 2}
  Depth = 2
  MaxS = 0
  MaxI = 0
  MaxSPI = 0
  BySource = FALSE
  Exclusive = FALSE
  StrengthOf <- Strength0
  MinSep = 0
  Kinds = {"ALIVE", "DISPOSED", "UNREGISTERED", "DISPOSED_UNREGISTERED"}
  MaxAdds = 10
  MaxAccess = 4
  AccessKinds = {"Read", "Take"}
  MaskChoices <- MaskSome
  MaxChoices = {0, 1, 2}
  UseInstArg = TRUE
  MaxUnmatch = 1
