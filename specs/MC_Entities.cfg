SPECIFICATION Spec
VIEW view
INVARIANT TreeConsistent
CHECK_DEADLOCK FALSE
CONSTANTS
  MaxPubs = 2
  MaxSubs = 1
  MaxTopics = 2
  MaxWriters = 2
  MaxCfts = 1
  MaxReaders = 1
  TopicNames = {"A", "B"}
  MaxOps = 6
  Warm = 0
  ChurnAt = {}
