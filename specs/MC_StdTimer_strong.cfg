SPECIFICATION Spec
INVARIANT NoWakeAfterDrop
CHECK_DEADLOCK FALSE
CONSTANTS
  Sleeps = {1, 2}
  Durations = {0, 1, 2}
  MaxTime = 3
  SpuriousPolls = TRUE
