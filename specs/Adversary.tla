------------------------------ MODULE Adversary ------------------------------
(***************************************************************************)
(* The datagrams an adversary on the network can send to a participant     *)
(* (C06) and what they are allowed to change.                              *)
(*                                                                         *)
(* A message is an RTPS header (source prefix: a participant the victim    *)
(* has discovered, an unknown one, the victim itself, zero; header         *)
(* variants) followed by submessages.  Every submessage kind of RTPS 2.x   *)
(* is described by its fields; each field ranges over a default (what a    *)
(* well behaved peer would send next) and a set of alternatives chosen at  *)
(* the boundaries of its domain (sequence numbers 0, -1, 2^63-1, -2^63;    *)
(* bitmap sizes 0, 256, 257, 2^32-1 with missing / surplus words;          *)
(* fragment numbers and sizes 0, 65535, 2^32-1; submessage lengths zero,   *)
(* short, beyond the datagram, odd; payloads and parameter lists that are  *)
(* empty, truncated, unterminated, or announce huge collections).  The     *)
(* enumerated space is every message in which at most two fields differ    *)
(* from the default, for every submessage kind, plus INFO_* prefixes.      *)
(*                                                                         *)
(* Inject(m) is a stuttering step for everything a well behaved peer can   *)
(* observe: the victim stays alive, keeps answering API calls, still       *)
(* discovers and matches new well behaved participants and exchanges       *)
(* samples with them; it consumes memory proportional to Len(m).           *)
(* Trace_Adversary.tla checks exactly that on recorded executions.         *)
(***************************************************************************)
EXTENDS Integers, Sequences, FiniteSets, TLC, Json

SN == {"ZERO", "ONE", "NEXT1", "FAR", "BIG", "MAX", "NEG", "MIN"}
U32 == {"ZERO", "TWO", "MAX16", "BIG", "MAX31", "MAX32"}
Bits == {"ZERO", "ONE", "N31", "N32", "N33", "N256", "N257", "N1000", "MAX31", "MAX32"}
Bitmap == {"short", "none", "long", "zeros"}
SubLen == {"zero", "short", "tiny", "long", "max", "odd"}
Src == {"unknown", "self", "zero"}
ToReader == {"user_any_reader", "user_unknown_writer", "sedp_pub", "sedp_sub", "sedp_topic", "spdp", "liveliness", "tl_req", "tl_rep"}
ToWriter == {"to_user_writer_unknown_reader", "to_sedp_pub_writer", "to_unknown_writer"}
Payload == {"empty", "short_header", "bad_encap", "garbage", "huge_seq", "huge_string", "pl_no_sentinel", "pl_only_sentinel",
            "pl_param_overrun", "pl_spoofed_guid", "pl_zero_lease"}
InlineQos == {"keyhash", "disposed", "garbage", "unterminated", "hugelen", "zerolen_params", "oddlen"}

\* kind -> [default |-> field -> value, alts |-> field -> set of values]
Common == [src |-> "known", len |-> "ok", endian |-> "LE"]
CommonAlts == [src |-> Src, len |-> SubLen, endian |-> {"BE"}]
D(k, r) == [f \in DOMAIN r \cup DOMAIN Common \cup {"k"} |-> IF f = "k" THEN k ELSE IF f \in DOMAIN r THEN r[f] ELSE Common[f]]
A(r) == [f \in DOMAIN r \cup DOMAIN CommonAlts |-> IF f \in DOMAIN r THEN r[f] ELSE CommonAlts[f]]

Kinds == {
  [d |-> D("DATA", [target |-> "user", sn |-> "NEXT", payload |-> "valid", iq |-> "none", dk |-> "data", otq |-> "ok"]),
   a |-> A([target |-> ToReader, sn |-> SN, payload |-> Payload, iq |-> InlineQos, dk |-> {"key", "both", "neither"}, otq |-> {"zero", "big", "small"}])],
  [d |-> D("DATA_FRAG", [target |-> "user", sn |-> "NEXT", fstart |-> "ONE", fcount |-> "ONE", fsize |-> "N256", ssize |-> "N1000", iq |-> "none", fbytes |-> "match"]),
   a |-> A([target |-> ToReader, sn |-> SN, fstart |-> U32, fcount |-> U32, fsize |-> {"ZERO", "ONE", "MAX16"}, ssize |-> U32,
            iq |-> {"keyhash", "garbage", "hugelen"}, fbytes |-> {"none", "few", "many"}])],
  [d |-> D("HEARTBEAT", [target |-> "user", first |-> "ONE", last |-> "NEXT", count |-> "N1000", final |-> "F", liveliness |-> "F"]),
   a |-> A([target |-> ToReader, first |-> SN, last |-> SN, count |-> U32, final |-> {"T"}, liveliness |-> {"T"}])],
  [d |-> D("HEARTBEAT_FRAG", [target |-> "user", sn |-> "NEXT", lastfrag |-> "TWO", count |-> "N1000"]),
   a |-> A([target |-> ToReader, sn |-> SN, lastfrag |-> U32, count |-> U32])],
  [d |-> D("GAP", [target |-> "user", start |-> "NEXT", base |-> "NEXT1", bits |-> "ZERO", bitmap |-> "ok"]),
   a |-> A([target |-> ToReader, start |-> SN, base |-> SN, bits |-> Bits, bitmap |-> Bitmap])],
  [d |-> D("ACKNACK", [target |-> "to_user_writer", base |-> "ONE", bits |-> "TWO", bitmap |-> "ok", count |-> "N1000", final |-> "F"]),
   a |-> A([target |-> ToWriter, base |-> SN, bits |-> Bits, bitmap |-> Bitmap, count |-> U32, final |-> {"T"}])],
  [d |-> D("NACK_FRAG", [target |-> "to_user_writer", sn |-> "TWO", base |-> "ONE", bits |-> "TWO", bitmap |-> "ok", count |-> "N1000"]),
   a |-> A([target |-> ToWriter, sn |-> SN, base |-> U32, bits |-> Bits, bitmap |-> Bitmap, count |-> U32])],
  [d |-> D("INFO_TS", [invalidate |-> "F", sec |-> "BIG", frac |-> "ZERO"]), a |-> A([invalidate |-> {"T"}, sec |-> U32, frac |-> U32])],
  [d |-> D("INFO_DST", [dst |-> "victim"]), a |-> A([dst |-> {"other", "zero"}])],
  [d |-> D("INFO_SRC", [x |-> "0"]), a |-> A([x |-> {}])],
  [d |-> D("INFO_REPLY", [locators |-> "ONE", multicast |-> "F"]), a |-> A([locators |-> U32, multicast |-> {"T"}])],
  [d |-> D("INFO_REPLY_IP4", [x |-> "0"]), a |-> A([x |-> {}])],
  [d |-> D("PAD", [x |-> "0"]), a |-> A([x |-> {}])],
  [d |-> D("UNKNOWN", [x |-> "0"]), a |-> A([x |-> {}])],
  [d |-> D("VENDOR", [x |-> "0"]), a |-> A([x |-> {}])] }

Variants1(d, a) == UNION {{[d EXCEPT ![f] = v] : v \in a[f]} : f \in DOMAIN a}
Variants2(d, a) == {d} \cup Variants1(d, a) \cup UNION {Variants1(d1, a) : d1 \in Variants1(d, a)}
Submessages == UNION {Variants2(k.d, k.a) : k \in Kinds}
Default(kind) == (CHOOSE k \in Kinds : k.d.k = kind).d

\* a message: header variant, source (taken from the first submessage's src field), submessages
Msg(hdr, trunc, subs) == [hdr |-> hdr, truncate |-> trunc, src |-> subs[1].src, subs |-> subs]
Single == {Msg("ok", 0, <<s>>) : s \in Submessages}
HeaderVariants == {Msg(h, 0, <<Default(k)>>) : h \in {"bad_magic", "old_version", "future_version", "truncated"}, k \in {"DATA", "HEARTBEAT"}}
Truncated == {Msg("ok", t, <<Default(k)>>) : t \in {1, 2, 3, 4, 7, 8, 9, 12, 16, 20, 24, 28}, k \in {"DATA", "DATA_FRAG", "HEARTBEAT", "GAP", "ACKNACK", "NACK_FRAG", "INFO_REPLY"}}
\* interpreter submessages in front of an entity submessage
Prefixed == {Msg("ok", 0, <<p, Default(k)>>) :
                p \in UNION {Variants1(Default(i), (CHOOSE x \in Kinds : x.d.k = i).a) \cup {Default(i)} : i \in {"INFO_TS", "INFO_DST", "INFO_SRC", "INFO_REPLY", "INFO_REPLY_IP4", "PAD", "UNKNOWN", "VENDOR"}},
                k \in {"DATA", "HEARTBEAT", "ACKNACK", "GAP"}}
\* two DATA_FRAG submessages of the same sample whose parameters disagree (size of the sample, fragment size, fragment
\* numbers, counts): the reassembly works on several buffered fragments
FragPairs == {Msg("ok", 0, <<Default("DATA_FRAG"), s>>) : s \in Variants2(Default("DATA_FRAG"), (CHOOSE x \in Kinds : x.d.k = "DATA_FRAG").a)}
             \cup {Msg("ok", 0, <<s, Default("DATA_FRAG")>>) : s \in Variants1(Default("DATA_FRAG"), (CHOOSE x \in Kinds : x.d.k = "DATA_FRAG").a)}
\* a HEARTBEAT / GAP / DATA after a DATA_FRAG that leaves a partial sample in the buffer
AfterFrag == {Msg("ok", 0, <<Default("DATA_FRAG"), s>>) :
                 s \in UNION {Variants1(Default(k), (CHOOSE x \in Kinds : x.d.k = k).a) \cup {Default(k)} : k \in {"HEARTBEAT", "HEARTBEAT_FRAG", "GAP", "DATA"}}}
\* a GAP that leaves a hole behind the next expected change (which stays missing), then a HEARTBEAT: the reader's ACKNACK has
\* to describe a missing set that is not contiguous and may reach past the 256 bits of a sequence number set
AfterGap == {Msg("ok", 0, <<g, h>>) :
                g \in {[Default("GAP") EXCEPT !.start = "NEXT1", !.base = b] : b \in {"NEXT2", "FAR"}} \cup {Default("GAP")},
                h \in Variants1(Default("HEARTBEAT"), (CHOOSE x \in Kinds : x.d.k = "HEARTBEAT").a) \cup {Default("HEARTBEAT")}}
Messages == Single \cup HeaderVariants \cup Truncated \cup Prefixed \cup FragPairs \cup AfterFrag \cup AfterGap

(* what a well behaved peer can observe of the victim *)
VARIABLES alive, serving, received
vars == <<alive, serving, received>>
Init == alive = TRUE /\ serving = TRUE /\ received = 0
Inject(m) == m \in Messages /\ UNCHANGED <<alive, serving>> /\ received' = received + 1
Next == \E m \in Messages : Inject(m)
Spec == Init /\ [][Next]_vars
Unharmed == alive /\ serving
=============================================================================
