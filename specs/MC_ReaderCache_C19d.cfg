\* C19: max_instances 1 with KEEP_LAST(1): an instance that only holds its dispose sample still occupies the cache
SPECIFICATION Spec
VIEW view
INVARIANT Inv
CHECK_DEADLOCK FALSE
CONSTANTS
  Instances = {1, 2}
  Writers = {1}
  Timestamps = {1}
  Depth = 1
  MaxS = 0
  MaxI = 1
  MaxSPI = 0
  BySource = FALSE
  Exclusive = FALSE
  StrengthOf <- Strength0
  MinSep = 0
  Kinds = {"ALIVE", "DISPOSED"}
  MaxAdds = 4
  MaxAccess = 1
  AccessKinds = {"Take"}
  MaskChoices <- MaskAny
  MaxChoices = {0}
  UseInstArg = FALSE
  MaxUnmatch = 0
