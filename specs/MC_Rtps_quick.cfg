\* safety of the envelope: 3 changes, <= 2 fragments, 1 reliable late-joining TRANSIENT_LOCAL reader,
\* 2 faults, 1 removal, 3 datagrams in flight
SPECIFICATION Spec
INVARIANT Safety
CHECK_DEADLOCK FALSE
CONSTANTS
  MaxSN = 3
  Readers <- R1
  Reliable <- AllReliable
  TransientLocal <- AllTL
  MaxFrags = 1
  MaxFaults = 1
  MaxRemove = 1
  MaxNet = 2
  JumpOnGap = FALSE
