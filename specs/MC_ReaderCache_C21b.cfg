\* C21: BY_SOURCE_TIMESTAMP with a full KEEP_LAST(2) history and late samples
SPECIFICATION Spec
VIEW view
INVARIANT Inv
CHECK_DEADLOCK FALSE
CONSTANTS
  Instances = {1}
  Writers = {1}
  Timestamps = {1, 2, 3}
  Depth = 2
  MaxS = 0
  MaxI = 0
  MaxSPI = 0
  BySource = TRUE
  Exclusive = FALSE
  StrengthOf <- Strength0
  MinSep = 0
  Kinds = {"ALIVE"}
  MaxAdds = 5
  MaxAccess = 1
  AccessKinds = {"Read"}
  MaskChoices <- MaskAny
  MaxChoices = {0}
  UseInstArg = FALSE
  MaxUnmatch = 0
