------------------------------- MODULE Rtps -------------------------------
(***************************************************************************)
(* The reliable / best-effort RTPS exchange between one stateful writer    *)
(* and its matched readers over a network that loses, duplicates and       *)
(* reorders datagrams, as implemented by dust-dds (rtps/stateful_writer,   *)
(* reader_proxy, writer_proxy, stateful_reader).                           *)
(*                                                                         *)
(* The writer side is an ENVELOPE: what it may emit is constrained only by *)
(* the emission guards (the same rules Trace_Rtps.tla checks on every      *)
(* datagram the real writer emits), when it emits is free.  The reader     *)
(* side is the acceptance rule of the implementation: a reliable reader    *)
(* accepts exactly the next expected change, remembers irrelevant changes  *)
(* above the first missing one and skips them only when everything before  *)
(* has been received.  TLC checks for every schedule within the constants: *)
(*   InOrderOnce, AckSound, NoSkipHeld (safety, C01 C02 C03 C04) and,      *)
(*   under fairness after Heal, AllRetainedDelivered (C01 C04 C05).        *)
(* Setting JumpOnGap = TRUE gives the behaviour of the pinned commit       *)
(* (a GAP moved the single highest-received counter): TLC then produces    *)
(* the counterexample to NoSkipHeld (MC_Rtps_jump.cfg, a self test).       *)
(***************************************************************************)
EXTENDS Integers, Sequences, FiniteSets, TLC, FiniteSetsExt

CONSTANTS
    MaxSN,        \* number of changes the writer publishes
    Readers,      \* set of reader ids
    Reliable,     \* [Readers -> BOOLEAN]
    TransientLocal, \* [Readers -> BOOLEAN]  (FALSE: VOLATILE, only changes after the match are relevant)
    MaxFrags,     \* a change has 1..MaxFrags fragments
    MaxFaults,    \* budget of losses + duplications
    MaxRemove,    \* number of changes the writer may remove from its history (lifespan / KEEP_LAST)
    MaxNet,       \* at most this many datagrams in flight
    JumpOnGap     \* TRUE: model the defective GAP handling of the pinned commit

VARIABLES
    lastSN,       \* last sequence number written
    hist,         \* sequence numbers in the writer history
    nfr,          \* sn -> number of fragments
    matched,      \* readers matched so far
    firstRel,     \* reader -> last sn that is NOT relevant to it (set at match time)
    sent,         \* reader -> set of <<sn, fragment>> sent at least once (<<sn, 0>>: a GAP for sn)
    hiAcked,      \* reader -> highest sn acknowledged by it
    requested,    \* reader -> set of <<sn, fragment>> it asked for again (fragment 0: the GAP)
    F,            \* reader -> accepted frontier (available_changes_max)
    irr,          \* reader -> irrelevant sns above the frontier
    frags,        \* reader -> set of <<sn, fragment>> buffered
    lastAvail,    \* reader -> last sn announced by a heartbeat
    accepted,     \* reader -> sequence of sns handed to the DDS reader, in order
    net,          \* set of datagrams in flight
    faults, removed, healed

vars == <<lastSN, hist, nfr, matched, firstRel, sent, hiAcked, requested, F, irr, frags, lastAvail,
          accepted, net, faults, removed, healed>>

SNs == 1..MaxSN
Max2(a, b) == IF a > b THEN a ELSE b
SetOfSeq(s) == {s[n] : n \in 1..Len(s)}

Init ==
    /\ lastSN = 0 /\ hist = {} /\ nfr = [sn \in SNs |-> 1]
    /\ matched = {}
    /\ firstRel = [r \in Readers |-> 0] /\ sent = [r \in Readers |-> {}]
    /\ hiAcked = [r \in Readers |-> 0] /\ requested = [r \in Readers |-> {}]
    /\ F = [r \in Readers |-> 0] /\ irr = [r \in Readers |-> {}] /\ frags = [r \in Readers |-> {}]
    /\ lastAvail = [r \in Readers |-> 0] /\ accepted = [r \in Readers |-> <<>>]
    /\ net = {} /\ faults = 0 /\ removed = 0 /\ healed = FALSE

-----------------------------------------------------------------------------
(* Writer: API *)
Write(k) ==
    /\ lastSN < MaxSN
    /\ lastSN' = lastSN + 1
    /\ hist' = hist \cup {lastSN + 1}
    /\ nfr' = [nfr EXCEPT ![lastSN + 1] = k]
    /\ UNCHANGED <<matched, firstRel, sent, hiAcked, requested, F, irr, frags, lastAvail, accepted, net, faults, removed, healed>>

\* lifespan expiry / KEEP_LAST eviction: any change may disappear from the history
Remove(sn) ==
    /\ removed < MaxRemove /\ sn \in hist
    /\ hist' = hist \ {sn} /\ removed' = removed + 1
    /\ UNCHANGED <<lastSN, nfr, matched, firstRel, sent, hiAcked, requested, F, irr, frags, lastAvail, accepted, net, faults, healed>>

Match(r) ==
    /\ r \notin matched
    /\ matched' = matched \cup {r}
    /\ firstRel' = [firstRel EXCEPT ![r] = IF TransientLocal[r] THEN 0 ELSE lastSN]
    /\ UNCHANGED <<lastSN, hist, nfr, sent, hiAcked, requested, F, irr, frags, lastAvail, accepted, net, faults, removed, healed>>

-----------------------------------------------------------------------------
(* Writer: emission guards (the envelope) *)
Relevant(r, sn) == sn \in hist /\ sn > firstRel[r]
DataJustified(r, sn, f) == Relevant(r, sn) /\ f \in 1..nfr[sn]
GapJustified(r, sn) == sn \in 1..lastSN /\ ~Relevant(r, sn)
HbFirst == IF hist = {} THEN lastSN + 1 ELSE Min(hist)

Emit(m) == Cardinality(net) < MaxNet /\ net' = net \cup {m}

SendData(r, sn, f) ==
    /\ r \in matched /\ DataJustified(r, sn, f)
    /\ Emit([k |-> "DATA", r |-> r, sn |-> sn, f |-> f, n |-> nfr[sn]])
    /\ sent' = [sent EXCEPT ![r] = @ \cup {<<sn, f>>}]
    /\ requested' = [requested EXCEPT ![r] = @ \ {<<sn, f>>}]
    /\ UNCHANGED <<lastSN, hist, nfr, matched, firstRel, hiAcked, F, irr, frags, lastAvail, accepted, faults, removed, healed>>

SendGap(r, sn) ==
    /\ r \in matched /\ GapJustified(r, sn)
    /\ Emit([k |-> "GAP", r |-> r, sn |-> sn])
    /\ sent' = [sent EXCEPT ![r] = @ \cup {<<sn, 0>>}]
    /\ requested' = [requested EXCEPT ![r] = {p \in @ : p[1] # sn}]
    /\ UNCHANGED <<lastSN, hist, nfr, matched, firstRel, hiAcked, F, irr, frags, lastAvail, accepted, faults, removed, healed>>

SendHb(r) ==
    /\ r \in matched /\ Reliable[r]
    /\ Emit([k |-> "HB", r |-> r, first |-> HbFirst, last |-> lastSN])
    /\ UNCHANGED <<lastSN, hist, nfr, matched, firstRel, sent, hiAcked, requested, F, irr, frags, lastAvail, accepted, faults, removed, healed>>

-----------------------------------------------------------------------------
(* Reader *)
\* skip the irrelevant changes that directly follow the frontier
RECURSIVE Advance(_, _)
Advance(f, ir) == IF f + 1 \in ir THEN Advance(f + 1, ir) ELSE f

AcceptData(r, sn) ==
    LET ok == IF Reliable[r] THEN sn = F[r] + 1 ELSE sn > F[r]
    IN IF ok
       THEN /\ accepted' = [accepted EXCEPT ![r] = Append(@, sn)]
            /\ F' = [F EXCEPT ![r] = Advance(sn, irr[r])]
            /\ irr' = [irr EXCEPT ![r] = {x \in @ : x > Advance(sn, irr[r])}]
            /\ frags' = [frags EXCEPT ![r] = {p \in @ : p[1] > sn}]
       ELSE UNCHANGED <<accepted, F, irr, frags>>

OnData(r, m) ==
    IF m.n = 1 THEN AcceptData(r, m.sn)
    ELSE \* DATA_FRAG: buffer only fragments of a change that would be accepted
         LET wanted == IF Reliable[r] THEN m.sn = F[r] + 1 ELSE m.sn > F[r]
             fr == IF wanted THEN frags[r] \cup {<<m.sn, m.f>>} ELSE frags[r]
             complete == \A f \in 1..m.n : <<m.sn, f>> \in fr
         IN IF complete
            THEN AcceptData(r, m.sn)
            ELSE /\ frags' = [frags EXCEPT ![r] = fr] /\ UNCHANGED <<accepted, F, irr>>

OnGap(r, m) ==
    /\ IF JumpOnGap
       THEN /\ F' = [F EXCEPT ![r] = Max2(@, m.sn)] /\ UNCHANGED irr
       ELSE IF m.sn <= F[r] THEN UNCHANGED <<F, irr>>
            ELSE LET ir == irr[r] \cup {m.sn}
                     f1 == Advance(F[r], ir)
                 IN /\ F' = [F EXCEPT ![r] = f1]
                    /\ irr' = [irr EXCEPT ![r] = {x \in ir : x > f1}]
    /\ frags' = [frags EXCEPT ![r] = {p \in @ : p[1] > F'[r]}]
    /\ UNCHANGED accepted

OnHb(r, m) ==
    LET f0 == Max2(F[r], m.first - 1)
        f1 == Advance(f0, irr[r])
    IN /\ F' = [F EXCEPT ![r] = f1]
       /\ irr' = [irr EXCEPT ![r] = {x \in @ : x > f1}]
       /\ frags' = [frags EXCEPT ![r] = {p \in @ : p[1] > f1}]
       /\ lastAvail' = [lastAvail EXCEPT ![r] = Max2(@, m.last)]
       /\ UNCHANGED accepted

\* the reader answers (at any time after a heartbeat) with what it is missing
SendAck(r) ==
    /\ r \in matched /\ Reliable[r] /\ lastAvail[r] > 0
    /\ LET missing == {sn \in (F[r] + 1)..lastAvail[r] : sn \notin irr[r]}
           partial == {sn \in missing : \E p \in frags[r] : p[1] = sn}
       IN Emit([k |-> "ACK", r |-> r, base |-> F[r] + 1, set |-> missing \ partial,
                fset |-> {p \in partial \X (1..MaxFrags) : p[2] <= nfr[p[1]] /\ p \notin frags[r]}])
    /\ UNCHANGED <<lastSN, hist, nfr, matched, firstRel, sent, hiAcked, requested, F, irr, frags, lastAvail, accepted, faults, removed, healed>>

OnAck(m) ==
    /\ hiAcked' = [hiAcked EXCEPT ![m.r] = Max2(@, m.base - 1)]
    /\ requested' = [requested EXCEPT ![m.r] = @ \cup (m.set \X (0..MaxFrags)) \cup m.fset]

-----------------------------------------------------------------------------
(* Network *)
Process(m) ==
    CASE m.k = "DATA" -> OnData(m.r, m) /\ UNCHANGED <<lastAvail, hiAcked, requested>>
      [] m.k = "GAP" -> OnGap(m.r, m) /\ UNCHANGED <<lastAvail, hiAcked, requested>>
      [] m.k = "HB" -> OnHb(m.r, m) /\ UNCHANGED <<hiAcked, requested>>
      [] m.k = "ACK" -> OnAck(m) /\ UNCHANGED <<F, irr, frags, lastAvail, accepted>>

Deliver(m) ==
    /\ m \in net /\ net' = net \ {m} /\ Process(m)
    /\ UNCHANGED <<lastSN, hist, nfr, matched, firstRel, sent, faults, removed, healed>>

Duplicate(m) ==
    /\ m \in net /\ ~healed /\ faults < MaxFaults /\ faults' = faults + 1
    /\ UNCHANGED net /\ Process(m)
    /\ UNCHANGED <<lastSN, hist, nfr, matched, firstRel, sent, removed, healed>>

Lose(m) ==
    /\ m \in net /\ ~healed /\ faults < MaxFaults /\ faults' = faults + 1
    /\ net' = net \ {m}
    /\ UNCHANGED <<lastSN, hist, nfr, matched, firstRel, sent, hiAcked, requested, F, irr, frags, lastAvail, accepted, removed, healed>>

Heal ==
    /\ ~healed /\ healed' = TRUE
    /\ UNCHANGED <<lastSN, hist, nfr, matched, firstRel, sent, hiAcked, requested, F, irr, frags, lastAvail, accepted, net, faults, removed>>

Next ==
    \/ \E k \in 1..MaxFrags : Write(k)
    \/ \E sn \in SNs : Remove(sn)
    \/ \E r \in Readers : Match(r) \/ SendHb(r) \/ SendAck(r)
    \/ \E r \in Readers, sn \in SNs : SendGap(r, sn) \/ \E f \in 1..MaxFrags : SendData(r, sn, f)
    \/ \E m \in net : Deliver(m) \/ Duplicate(m) \/ Lose(m)
    \/ Heal

AllMsgs ==
    [k : {"DATA"}, r : Readers, sn : SNs, f : 1..MaxFrags, n : 1..MaxFrags]
    \cup [k : {"GAP"}, r : Readers, sn : SNs]
    \cup [k : {"HB"}, r : Readers, first : 1..(MaxSN + 1), last : 0..MaxSN]
    \cup [k : {"ACK"}, r : Readers, base : 1..(MaxSN + 1), set : SUBSET SNs, fset : SUBSET (SNs \X (1..MaxFrags))]

\* What the implementation is obliged to do eventually (the rest is optional):
\* send every unsent relevant change or fragment, answer requests, keep announcing, keep
\* answering heartbeats; the network eventually delivers.
Unsent(r, sn, f) == Relevant(r, sn) /\ f <= nfr[sn] /\ (<<sn, f>> \notin sent[r] \/ <<sn, f>> \in requested[r])
\* (strong fairness for emissions: the bound on datagrams in flight disables them intermittently)
Fairness ==
    /\ \A r \in Readers, sn \in SNs, f \in 1..MaxFrags :
          SF_vars(Unsent(r, sn, f) /\ SendData(r, sn, f))
    /\ \A r \in Readers, sn \in SNs :
          SF_vars((<<sn, 0>> \notin sent[r] \/ \E p \in requested[r] : p[1] = sn) /\ SendGap(r, sn))
    /\ \A r \in Readers : SF_vars(hiAcked[r] < lastSN /\ SendHb(r))
    /\ \A r \in Readers : SF_vars(F[r] < lastAvail[r] /\ SendAck(r))
    /\ \A r \in Readers : SF_vars(hiAcked[r] < F[r] /\ SendAck(r))
    /\ \A m \in AllMsgs : WF_vars(Deliver(m))
    /\ WF_vars(Heal)
    /\ \A r \in Readers : WF_vars(Match(r))
    /\ WF_vars(\E k \in 1..MaxFrags : Write(k))

Spec == Init /\ [][Next]_vars
LiveSpec == Spec /\ Fairness

-----------------------------------------------------------------------------
(* Properties *)
TypeOK ==
    /\ hist \subseteq 1..lastSN
    /\ \A r \in Readers : F[r] \in 0..MaxSN /\ hiAcked[r] \in 0..MaxSN

\* C01 / C02: presented in publication order, each at most once, only written changes
InOrderOnce ==
    \A r \in Readers :
        /\ \A n, m \in 1..Len(accepted[r]) : n < m => accepted[r][n] < accepted[r][m]
        /\ SetOfSeq(accepted[r]) \subseteq 1..lastSN

\* C03: the writer never believes more than the reader has
AckSound == \A r \in Readers : hiAcked[r] <= F[r]

\* C01 / C04: the reliable frontier never passes a relevant change the writer still holds
NoSkipHeld ==
    \A r \in Readers : Reliable[r] =>
        \A sn \in hist : (sn > firstRel[r] /\ sn <= F[r]) => sn \in SetOfSeq(accepted[r])

\* C04: a VOLATILE reader never gets a change written before the match
VolatileNoHistory ==
    \A r \in matched : ~TransientLocal[r] => \A sn \in SetOfSeq(accepted[r]) : sn > firstRel[r]

Safety == TypeOK /\ InOrderOnce /\ AckSound /\ NoSkipHeld /\ VolatileNoHistory

\* C01 / C04 / C05: once healed, every change the writer retains reaches every reliable matched reader
AllRetainedDelivered ==
    \A r \in Readers : Reliable[r] =>
        <>[](\A sn \in hist : sn > firstRel[r] => sn \in SetOfSeq(accepted[r]))
=============================================================================
