------------------------------ MODULE StdTimer ------------------------------
(***************************************************************************)
(* The timer of the std runtime (C42): std_runtime/timer.rs.               *)
(*                                                                         *)
(* Sleep futures talk to one timer thread through an mpsc queue:           *)
(*   poll    -> Ready when now > deadline (strict), otherwise the first    *)
(*              poll fixes deadline = now + duration and EVERY pending     *)
(*              poll sends Wake(id, deadline, waker)                       *)
(*   drop    -> sends Cancel(id)                                           *)
(* The timer thread loops:  wake (pop) every heap entry with deadline <    *)
(* now;  then receive ONE message, waiting at most until the next          *)
(* deadline;  Wake is pushed on the heap, Cancel removes all entries of    *)
(* the id.  One action per step of that loop and per poll / drop; time     *)
(* is a counter advanced by Tick.                                          *)
(***************************************************************************)
EXTENDS Integers, Sequences, FiniteSets, TLC

CONSTANTS Sleeps, Durations, MaxTime, SpuriousPolls

VARIABLES now, pc, deadline, woken, msgs, heap, tpc, cancelled, wokeDropped, wokeCancelled, polls,
          wk        \* generation of the waker the task currently listens to (a sleep may be polled with a new waker)
vars == <<now, pc, deadline, woken, msgs, heap, tpc, cancelled, wokeDropped, wokeCancelled, polls, wk>>

Init == /\ now = 0 /\ pc = [i \in Sleeps |-> "new"] /\ deadline = [i \in Sleeps |-> -1]
        /\ woken = [i \in Sleeps |-> FALSE] /\ msgs = <<>> /\ heap = {} /\ tpc = "check"
        /\ cancelled = [i \in Sleeps |-> FALSE] /\ wokeDropped = [i \in Sleeps |-> FALSE]
        /\ wokeCancelled = [i \in Sleeps |-> FALSE] /\ polls = 0 /\ wk = [i \in Sleeps |-> 0]

Tick == now < MaxTime /\ now' = now + 1
        /\ UNCHANGED <<pc, deadline, woken, msgs, heap, tpc, cancelled, wokeDropped, wokeCancelled, polls, wk>>

\* the task polls its sleep: first poll, after a wake-up, or spuriously (select with another future)
Poll(i, dur, newwaker) ==
    /\ pc[i] \in {"new", "pending"}
    /\ (pc[i] = "new" \/ woken[i] \/ (SpuriousPolls /\ polls < 2))
    /\ (newwaker => wk[i] < 1)
    /\ polls' = IF pc[i] = "pending" /\ ~woken[i] THEN polls + 1 ELSE polls
    /\ wk' = [wk EXCEPT ![i] = IF newwaker THEN @ + 1 ELSE @]
    /\ IF pc[i] = "pending" /\ now > deadline[i]
       THEN /\ pc' = [pc EXCEPT ![i] = "ready"]
            /\ UNCHANGED <<deadline, msgs>>
       ELSE LET d == IF pc[i] = "new" THEN now + dur ELSE deadline[i]
            IN /\ pc' = [pc EXCEPT ![i] = "pending"]
               /\ deadline' = [deadline EXCEPT ![i] = d]
               /\ msgs' = Append(msgs, [type |-> "Wake", id |-> i, deadline |-> d, wk |-> wk'[i]])
    /\ woken' = [woken EXCEPT ![i] = FALSE]
    /\ UNCHANGED <<now, heap, tpc, cancelled, wokeDropped, wokeCancelled>>

Drop(i) ==
    /\ pc[i] \in {"new", "pending"}
    /\ pc' = [pc EXCEPT ![i] = "dropped"]
    /\ msgs' = Append(msgs, [type |-> "Cancel", id |-> i, deadline |-> 0, wk |-> 0])
    /\ UNCHANGED <<now, deadline, woken, heap, tpc, cancelled, wokeDropped, wokeCancelled, polls, wk>>

Elapsed == {e \in heap : e.deadline < now}
MinDeadline(S) == CHOOSE e \in S : \A f \in S : e.deadline <= f.deadline

\* timer thread, first half of the loop: wake the elapsed entries one by one
TWake ==
    /\ tpc = "check" /\ Elapsed # {}
    /\ LET e == MinDeadline(Elapsed) IN
        /\ heap' = heap \ {e}
        \* the entry's waker is woken; the task only notices if it is the waker it currently listens to
        /\ woken' = [woken EXCEPT ![e.id] = @ \/ e.wk = wk[e.id]]
        /\ wokeDropped' = [wokeDropped EXCEPT ![e.id] = @ \/ pc[e.id] = "dropped"]
        /\ wokeCancelled' = [wokeCancelled EXCEPT ![e.id] = @ \/ cancelled[e.id]]
    /\ UNCHANGED <<now, pc, deadline, msgs, tpc, cancelled, polls, wk>>
TCheckDone ==
    /\ tpc = "check" /\ Elapsed = {} /\ tpc' = "recv"
    /\ UNCHANGED <<now, pc, deadline, woken, msgs, heap, cancelled, wokeDropped, wokeCancelled, polls, wk>>
\* second half: one message, or the timeout of recv_timeout(next deadline - now)
TRecv ==
    /\ tpc = "recv" /\ msgs # <<>>
    /\ LET m == Head(msgs) IN
        /\ msgs' = Tail(msgs)
        /\ IF m.type = "Wake"
           THEN heap' = heap \cup {[id |-> m.id, deadline |-> m.deadline, wk |-> m.wk]} /\ UNCHANGED cancelled
           ELSE heap' = {e \in heap : e.id # m.id} /\ cancelled' = [cancelled EXCEPT ![m.id] = TRUE]
    /\ tpc' = "check"
    /\ UNCHANGED <<now, pc, deadline, woken, wokeDropped, wokeCancelled, polls, wk>>
TTimeout ==
    /\ tpc = "recv" /\ msgs = <<>> /\ heap # {} /\ now >= MinDeadline(heap).deadline
    /\ tpc' = "check"
    /\ UNCHANGED <<now, pc, deadline, woken, msgs, heap, cancelled, wokeDropped, wokeCancelled, polls, wk>>

Next == Tick \/ TWake \/ TCheckDone \/ TRecv \/ TTimeout
        \/ \E i \in Sleeps : Drop(i) \/ \E d \in Durations, nw \in BOOLEAN : Poll(i, d, nw)
Spec == Init /\ [][Next]_vars

TypeOK == /\ pc \in [Sleeps -> {"new", "pending", "ready", "dropped"}] /\ tpc \in {"check", "recv"}
\* a sleep never completes before its deadline
NeverEarly == \A i \in Sleeps : pc[i] = "ready" => now > deadline[i]
\* the wake-up token of a pending sleep is never lost: an entry for the waker the task currently listens to is on
\* the heap or on its way there (a sleep re-polled with another waker before its deadline registers that waker too)
NoLostWakeup == \A i \in Sleeps : (pc[i] = "pending" /\ ~woken[i]) =>
                    (\E e \in heap : e.id = i /\ e.deadline = deadline[i] /\ e.wk = wk[i])
                    \/ (\E k \in 1..Len(msgs) : msgs[k].type = "Wake" /\ msgs[k].id = i /\ msgs[k].deadline = deadline[i] /\ msgs[k].wk = wk[i])
\* no wake-up before the deadline
NoEarlyWake == \A i \in Sleeps : (woken[i] /\ pc[i] = "pending") => now > deadline[i]
\* once the timer thread has processed the Cancel of a dropped sleep, its task is never woken again
NoWakeAfterCancel == \A i \in Sleeps : ~wokeCancelled[i]
\* the stronger statement "a dropped sleep never wakes its task" does NOT hold: the thread wakes elapsed entries
\* before it looks at the queue, so a Cancel queued just before the deadline loses the race (must-fail configuration)
NoWakeAfterDrop == \A i \in Sleeps : ~wokeDropped[i]
Inv == TypeOK /\ NeverEarly /\ NoLostWakeup /\ NoEarlyWake /\ NoWakeAfterCancel
=============================================================================
