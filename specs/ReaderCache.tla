----------------------------- MODULE ReaderCache -----------------------------
(***************************************************************************)
(* The DataReader history cache of dust-dds (DataReaderEntity /            *)
(* UserDefinedDataReader): reception of changes (add_reader_change),       *)
(* read / take, read_next_instance / take_next_instance, match / unmatch   *)
(* of writers.  One action per public call of the object.                  *)
(*                                                                         *)
(* The actions describe the behaviour that properties C18..C25 require     *)
(* (DDS 1.4 2.2.2.5), not necessarily what the code does; every expected   *)
(* outcome carries a `tag' naming the rule that produced it, so that a     *)
(* divergence of the implementation can be attributed.                     *)
(*                                                                         *)
(* Every transition is emitted (Emit) as one JSON line                     *)
(*     source state, operation + expected result, destination state        *)
(* and replayed against the real object by the harness (Binding A).        *)
(***************************************************************************)
EXTENDS Integers, Sequences, FiniteSets, TLC, Json, SequencesExt, FiniteSetsExt

CONSTANTS
    Instances,      \* set of instance handles (positive naturals, ordered as handles)
    Writers,        \* set of writer ids (positive naturals)
    Timestamps,     \* set of source timestamps (naturals)
    Depth,          \* 0 = KEEP_ALL, d > 0 = KEEP_LAST(d)
    MaxS, MaxI, MaxSPI, \* resource limits, 0 = unlimited
    BySource,       \* TRUE = BY_SOURCE_TIMESTAMP destination order
    Exclusive,      \* TRUE = EXCLUSIVE ownership
    StrengthOf,     \* [Writers -> Nat]
    MinSep,         \* time based filter minimum separation, 0 = none
    Kinds,          \* subset of {"ALIVE","DISPOSED","UNREGISTERED"}
    MaxAdds,        \* bound on receptions
    MaxAccess,      \* bound on read/take calls
    AccessKinds,    \* subset of {"Read","Take","ReadNext","TakeNext"}
    MaskChoices,    \* set of <<sample states, view states, instance states>>
    MaxChoices,     \* set of max_samples values, 0 = unlimited
    UseInstArg,     \* TRUE: read/take also with a specific instance handle
    MaxUnmatch      \* bound on unmatch/rematch actions (exclusive ownership only)

VARIABLES
    samples,    \* the stored samples, in storage order
    inst,       \* per instance: known, view, is, dgc, nwgc, writers
    owner,      \* per instance: owning writer or 0 (exclusive ownership only)
    matched,    \* set of currently matched writers
    acc,        \* per instance: source timestamps of ALIVE changes accepted so far (time filter)
    nextId,     \* identity given to the next received change (its payload)
    nAdds, nAcc, nUnm,
    hist,       \* history: every reception with its verdict (observation only, not in VIEW)
    lastOp      \* the operation that led here with its expected result (observation only)

vars == <<samples, inst, owner, matched, acc, nextId, nAdds, nAcc, nUnm, hist, lastOp>>
view == <<samples, inst, owner, matched, acc, nextId, nAdds, nAcc, nUnm>>

NoInst == 0
NoWriter == 0

SS == {"NOT_READ", "READ"}
VS == {"NEW", "NOT_NEW"}
IS == {"ALIVE", "DISPOSED", "NO_WRITERS"}

InitInst == [known |-> FALSE, view |-> "NEW", is |-> "ALIVE", dgc |-> 0, nwgc |-> 0,
             writers |-> {}]

Init ==
    /\ samples = <<>>
    /\ inst = [i \in Instances |-> InitInst]
    /\ owner = [i \in Instances |-> NoWriter]
    /\ matched = Writers
    /\ acc = [i \in Instances |-> {}]
    /\ nextId = 1
    /\ nAdds = 0 /\ nAcc = 0 /\ nUnm = 0
    /\ hist = <<>>
    /\ lastOp = [op |-> "Init"]

-----------------------------------------------------------------------------
(* Helpers *)

Idx(s) == 1..Len(s)
IdxOfInst(i) == {n \in Idx(samples) : samples[n].i = i}
AliveIdxOfInst(i) == {n \in IdxOfInst(i) : samples[n].kind = "ALIVE"}
DataCount == Cardinality({n \in Idx(samples) : samples[n].kind = "ALIVE"})
InstancesStored == {samples[n].i : n \in Idx(samples)}
Abs(x) == IF x < 0 THEN -x ELSE x

\* Position at which a change with source timestamp ts is stored.
InsertPos(s, ts) ==
    IF ~BySource THEN Len(s) + 1
    ELSE LET later == {n \in Idx(s) : s[n].ts > ts}
         IN IF later = {} THEN Len(s) + 1 ELSE Min(later)

\* Projection of the state that is compared with the implementation after every step.
ProjSample(s) == [id |-> s.id, i |-> s.i, w |-> s.w, kind |-> s.kind, ts |-> s.ts,
                  ss |-> s.ss, dgc |-> s.dgc, nwgc |-> s.nwgc]
ProjInst(i) == [i |-> i, view |-> inst[i].view, is |-> inst[i].is,
                dgc |-> inst[i].dgc, nwgc |-> inst[i].nwgc]
Proj == [samples |-> [n \in Idx(samples) |-> ProjSample(samples[n])],
         inst |-> SetToSortSeq({ProjInst(i) : i \in {j \in Instances : inst[j].known}},
                               LAMBDA a, b : a.i < b.i),
         \* the remaining components only make the projection injective on `view'
         aux |-> <<[i \in Instances |-> inst[i].writers], owner, matched, acc,
                   nextId, nAdds, nAcc, nUnm>>]

-----------------------------------------------------------------------------
(* Reception of a change: add_reader_change *)

\* The instance life cycle (C22).
ApplyState(w, i, k) ==
    LET old == inst[i]
        writers1 == CASE k = "ALIVE" -> old.writers \cup {w}
                      [] k \in {"UNREGISTERED", "DISPOSED_UNREGISTERED"} -> old.writers \ {w}
                      [] OTHER -> old.writers
        reborn == old.known /\ old.is # "ALIVE" /\ k = "ALIVE"
        is1 == CASE k = "ALIVE" -> "ALIVE"
                 \* an unregister of a writer with autodispose_unregistered_instances disposes the instance as well
                 [] k \in {"DISPOSED", "DISPOSED_UNREGISTERED"} -> IF old.is = "ALIVE" THEN "DISPOSED" ELSE old.is
                 [] k = "UNREGISTERED" ->
                        IF old.is = "ALIVE" /\ writers1 = {} THEN "NO_WRITERS" ELSE old.is
    IN [known |-> TRUE,
        view |-> IF ~old.known \/ reborn THEN "NEW" ELSE old.view,
        is |-> is1,
        dgc |-> IF reborn /\ old.is = "DISPOSED" THEN old.dgc + 1 ELSE old.dgc,
        nwgc |-> IF reborn /\ old.is = "NO_WRITERS" THEN old.nwgc + 1 ELSE old.nwgc,
        writers |-> writers1]

\* Exclusive ownership (C24): is the change of w ignored because another writer owns i ?
OwnerOf(i) == IF owner[i] \in matched THEN owner[i] ELSE NoWriter
IgnoredByOwnership(w, i) ==
    /\ Exclusive
    /\ OwnerOf(i) # NoWriter
    /\ OwnerOf(i) # w
    /\ StrengthOf[w] <= StrengthOf[OwnerOf(i)]

\* Time based filter (C25): "a reader never presents two samples of the same instance whose source timestamps are
\* closer than minimum_separation" - a dispose / unregister is presented as a sample too, so a change of ANY kind is
\* filtered iff it is closer than MinSep to a change of the instance accepted before.
FilteredByTime(i, k, ts) ==
    /\ MinSep > 0
    /\ \E t \in acc[i] : Abs(ts - t) < MinSep

\* KEEP_LAST replacement (C18): the instance already holds Depth data samples.
\* (dust-dds also makes room this way for a dispose/unregister sample that arrives while the
\*  instance holds Depth data samples; the statements do not say, the model follows the code)
Replaces(i, k) == Depth > 0 /\ Cardinality(AliveIdxOfInst(i)) >= Depth

\* Resource limits (C19): the set of limits that storing one more sample would exceed.
ExceededLimits(i, k) ==
    (IF MaxS > 0 /\ k = "ALIVE" /\ DataCount + 1 > MaxS THEN {"SAMPLES"} ELSE {})
    \cup (IF MaxI > 0 /\ i \notin InstancesStored /\ Cardinality(InstancesStored) + 1 > MaxI
          THEN {"INSTANCES"} ELSE {})
    \cup (IF MaxSPI > 0 /\ Cardinality(IdxOfInst(i)) + 1 > MaxSPI
          THEN {"SAMPLES_PER_INSTANCE"} ELSE {})

AddOp(w, i, k, ts, res, reasons, tag) ==
    [op |-> "Add", w |-> w, i |-> i, kind |-> k, ts |-> ts, id |-> nextId,
     expect |-> [res |-> res, reasons |-> reasons], tag |-> tag]

NoChange == UNCHANGED <<samples, inst, owner, acc>>

\* A change that is filtered or rejected is not stored, but the reader has heard of its writer: dust-dds keeps
\* the set of writers of the instance up to date with every change that passes the ownership check, stored or
\* not (a writer whose write was rejected for lack of room still has the instance registered, so the instance
\* does not become NOT_ALIVE_NO_WRITERS when the other writers unregister).  The statements say nothing about
\* this bookkeeping; the model follows the code.  Everything a reader can observe stays unchanged.
HeardOnly(w, i, k) ==
    /\ inst' = [inst EXCEPT ![i].writers = ApplyState(w, i, k).writers]
    /\ UNCHANGED <<samples, owner, acc>>

AddChange(w, i, k, ts) ==
    /\ nAdds < MaxAdds
    /\ w \in matched
    \* outside the enumerated domain (the statements do not say what happens):
    \* a writer disposing / unregistering an instance it never wrote, dispose of an instance
    \* without writers, unregister of a disposed instance
    /\ k # "ALIVE" /\ inst[i].known => w \in inst[i].writers
    \* ... and a dispose / unregister of an instance the reader has only heard of through rejected changes
    /\ k # "ALIVE" /\ ~inst[i].known => inst[i].writers = {}
    /\ k = "DISPOSED" => inst[i].is # "NO_WRITERS"
    /\ k = "UNREGISTERED" => inst[i].is # "DISPOSED"
    /\ k = "DISPOSED_UNREGISTERED" => (inst[i].known => inst[i].is = "ALIVE")
    \* whether a dispose by the owner releases the ownership is left open by C24: until the
    \* owner writes again, changes of other writers are outside the enumerated domain
    /\ (Exclusive /\ inst[i].known /\ inst[i].is = "DISPOSED" /\ owner[i] # NoWriter) => w = owner[i]
    /\ nAdds' = nAdds + 1
    /\ nextId' = nextId + 1
    /\ UNCHANGED <<matched, nAcc, nUnm>>
    /\ LET rec(v) == [t |-> "recv", id |-> nextId, w |-> w, i |-> i, kind |-> k, ts |-> ts,
                     verdict |-> v, own |-> OwnerOf(i)]
       IN
       IF IgnoredByOwnership(w, i) THEN
            /\ NoChange
            /\ hist' = Append(hist, rec("NotAdded"))
            /\ lastOp' = AddOp(w, i, k, ts, "NotAdded", {}, "ownership:weaker-writer-ignored")
       ELSE IF k # "ALIVE" /\ ~inst[i].known THEN
            /\ NoChange
            /\ hist' = Append(hist, rec("NotAdded"))
            /\ lastOp' = AddOp(w, i, k, ts, "NotAdded", {}, "state:not-alive-change-of-unknown-instance")
       ELSE IF FilteredByTime(i, k, ts) THEN
            /\ HeardOnly(w, i, k)
            /\ hist' = Append(hist, rec("NotAdded"))
            /\ lastOp' = AddOp(w, i, k, ts, "NotAdded", {},
                               IF \E n \in IdxOfInst(i) : Abs(ts - samples[n].ts) < MinSep
                               THEN "timefilter:closer-than-minimum-separation"
                               ELSE "timefilter:closer-to-taken-sample-only")
       ELSE IF ~Replaces(i, k) /\ ExceededLimits(i, k) # {} THEN
            /\ HeardOnly(w, i, k)
            /\ hist' = Append(hist, rec("Rejected"))
            /\ lastOp' = AddOp(w, i, k, ts, "Rejected", ExceededLimits(i, k),
                               IF inst[i].known /\ ApplyState(w, i, k).is # inst[i].is
                               THEN "limits:rejected-would-change-instance-state" ELSE "limits:rejected")
       ELSE
            LET st == ApplyState(w, i, k)
                base == IF Replaces(i, k) THEN RemoveAt(samples, Min(AliveIdxOfInst(i)))
                        ELSE samples
                new == [id |-> nextId, i |-> i, w |-> w, kind |-> k, ts |-> ts,
                        ss |-> "NOT_READ", dgc |-> st.dgc, nwgc |-> st.nwgc]
            IN
            /\ samples' = InsertAt(base, InsertPos(base, ts), new)
            /\ inst' = [inst EXCEPT ![i] = st]
            /\ owner' = IF ~Exclusive THEN owner
                        ELSE IF k \in {"UNREGISTERED", "DISPOSED_UNREGISTERED"} THEN [owner EXCEPT ![i] = NoWriter]
                        ELSE [owner EXCEPT ![i] = w]
            /\ acc' = IF MinSep > 0 THEN [acc EXCEPT ![i] = @ \cup {ts}] ELSE acc
            /\ hist' = Append(hist, rec("Added"))
            /\ lastOp' = AddOp(w, i, k, ts, "Added", {},
                               IF Replaces(i, k) THEN "history:keep-last-replaces-oldest"
                               ELSE IF Exclusive /\ owner[i] # NoWriter /\ owner[i] # w
                                    THEN (IF owner[i] \in matched
                                          THEN "ownership:stronger-writer-takes-over"
                                          ELSE "ownership:owner-no-longer-matched")
                               ELSE IF inst[i].known /\ inst[i].is # "ALIVE" /\ k = "ALIVE"
                                    THEN "state:rebirth"
                               ELSE IF k = "UNREGISTERED" /\ st.is = "ALIVE"
                                    THEN "state:unregister-while-other-writers-remain"
                               ELSE IF BySource /\ InsertPos(base, ts) <= Len(base)
                                    THEN "order:inserted-before-later-timestamp"
                               ELSE "added")

-----------------------------------------------------------------------------
(* read / take *)

Candidates(S, V, I, h) ==
    {n \in Idx(samples) :
        /\ samples[n].ss \in S
        /\ inst[samples[n].i].view \in V
        /\ inst[samples[n].i].is \in I
        /\ (h = NoInst \/ samples[n].i = h)}

FirstN(S, max) ==   \* the max least elements of a set of indices
    IF max = 0 \/ Cardinality(S) <= max THEN S
    ELSE {n \in S : Cardinality({m \in S : m < n}) < max}

Gen(s) == s.dgc + s.nwgc

InfoOf(n, chosen) ==
    LET s == samples[n]
        sameInst == {m \in chosen : samples[m].i = s.i}
        mrsic == samples[Max(sameInst)]
        mrs == samples[Max(IdxOfInst(s.i))]
    IN [id |-> s.id, i |-> s.i, w |-> s.w, valid |-> (s.kind = "ALIVE"), ts |-> s.ts,
        ss |-> s.ss, vs |-> inst[s.i].view, is |-> inst[s.i].is,
        dgc |-> s.dgc, nwgc |-> s.nwgc,
        sr |-> Cardinality({m \in sameInst : m > n}),
        gr |-> Gen(mrsic) - Gen(s),
        \* most recent sample of the instance in the cache, or ever received: both readings
        agr |-> [anyOf |-> {Gen(mrs) - Gen(s), (inst[s.i].dgc + inst[s.i].nwgc) - Gen(s)}]]

AccessOp(name, take, max, m, h, prev, res, chosen, tag) ==
    [op |-> name, take |-> take, max |-> max, ss |-> m[1], vs |-> m[2], is |-> m[3],
     inst |-> h, prev |-> prev,
     expect |-> [res |-> res,
                 samples |-> [k \in 1..Cardinality(chosen) |->
                                InfoOf(SetToSortSeq(chosen, <)[k], chosen)]],
     tag |-> tag]

DoAccess(name, take, max, m, h, prev, tag) ==
    LET chosen == FirstN(Candidates(m[1], m[2], m[3], h), max)
        touched == {samples[n].i : n \in chosen}
    IN
    IF chosen = {} THEN
        /\ UNCHANGED <<samples, inst, hist>>
        /\ lastOp' = AccessOp(name, take, max, m, h, prev, "NoData", {}, tag)
    ELSE
        /\ samples' = IF take
                      THEN SelectSeq([n \in Idx(samples) |->
                                        IF n \in chosen THEN [samples[n] EXCEPT !.id = 0]
                                        ELSE samples[n]],
                                     LAMBDA s : s.id # 0)
                      ELSE [n \in Idx(samples) |->
                                IF n \in chosen THEN [samples[n] EXCEPT !.ss = "READ"]
                                ELSE samples[n]]
        /\ inst' = [i \in Instances |->
                        IF i \in touched THEN [inst[i] EXCEPT !.view = "NOT_NEW"] ELSE inst[i]]
        /\ hist' = IF take THEN Append(hist, [t |-> "take", ids |-> {samples[n].id : n \in chosen}])
                   ELSE hist
        /\ lastOp' = AccessOp(name, take, max, m, h, prev, "Ok", chosen, tag)

ReadTake(take, max, m, h) ==
    /\ nAcc < MaxAccess
    /\ (IF take THEN "Take" ELSE "Read") \in AccessKinds
    \* outside the enumerated domain: access by the handle of an instance the reader has only heard of through rejected
    \* changes (dust-dds then knows the handle and answers NoData instead of BadParameter; the statements do not say)
    /\ (h # NoInst /\ ~inst[h].known) => inst[h].writers = {}
    /\ nAcc' = nAcc + 1
    /\ UNCHANGED <<owner, matched, acc, nextId, nAdds, nUnm>>
    /\ IF h # NoInst /\ ~inst[h].known THEN
            /\ UNCHANGED <<samples, inst, hist>>
            /\ lastOp' = AccessOp(IF take THEN "Take" ELSE "Read", take, max, m, h, NoInst,
                                  "BadParameter", {}, "access:unknown-instance")
       ELSE DoAccess(IF take THEN "Take" ELSE "Read", take, max, m, h, NoInst,
                     IF h = NoInst THEN "access" ELSE "access:specific-instance")

\* read_next_instance / take_next_instance (C23)
NextInstance(prev, m) ==
    LET later == {i \in Instances : i > prev /\ Candidates(m[1], m[2], m[3], i) # {}}
    IN IF later = {} THEN NoInst ELSE Min(later)

ReadTakeNext(take, max, m, prev) ==
    /\ nAcc < MaxAccess
    /\ (IF take THEN "TakeNext" ELSE "ReadNext") \in AccessKinds
    /\ nAcc' = nAcc + 1
    /\ UNCHANGED <<owner, matched, acc, nextId, nAdds, nUnm>>
    /\ LET h == NextInstance(prev, m)
           name == IF take THEN "TakeNext" ELSE "ReadNext"
           skipped == \E i \in Instances : i > prev /\ i < h /\ inst[i].known
       IN IF h = NoInst THEN
                /\ UNCHANGED <<samples, inst, hist>>
                /\ lastOp' = AccessOp(name, take, max, m, NoInst, prev, "NoData", {},
                                      "nextinstance:none")
          ELSE DoAccess(name, take, max, m, h, prev,
                        IF skipped THEN "nextinstance:skips-instance-without-matching-samples"
                        ELSE "nextinstance")

-----------------------------------------------------------------------------
(* match / unmatch of a writer (exclusive ownership: the owner may disappear) *)

Unmatch(w) ==
    /\ Exclusive /\ nUnm < MaxUnmatch
    /\ w \in matched
    /\ matched' = matched \ {w}
    /\ nUnm' = nUnm + 1
    /\ UNCHANGED <<samples, inst, owner, acc, nextId, nAdds, nAcc, hist>>
    /\ lastOp' = [op |-> "Unmatch", w |-> w, expect |-> [res |-> "Ok"], tag |-> "unmatch"]

Rematch(w) ==
    /\ Exclusive /\ nUnm < MaxUnmatch
    /\ w \in Writers \ matched
    /\ matched' = matched \cup {w}
    /\ nUnm' = nUnm + 1
    /\ UNCHANGED <<samples, inst, owner, acc, nextId, nAdds, nAcc, hist>>
    /\ lastOp' = [op |-> "Match", w |-> w, strength |-> StrengthOf[w],
                  expect |-> [res |-> "Ok"], tag |-> "match"]

-----------------------------------------------------------------------------
Emit == PrintT(<<"EDGE", ToJson([s |-> Proj, o |-> lastOp', d |-> Proj'])>>)

Step ==
    \/ \E w \in Writers, i \in Instances, k \in Kinds, ts \in Timestamps : AddChange(w, i, k, ts)
    \/ \E take \in BOOLEAN, max \in MaxChoices, m \in MaskChoices,
          h \in (IF UseInstArg THEN Instances \cup {NoInst} ELSE {NoInst}) :
            ReadTake(take, max, m, h)
    \/ \E take \in BOOLEAN, max \in MaxChoices, m \in MaskChoices, prev \in Instances \cup {NoInst} :
            ReadTakeNext(take, max, m, prev)
    \/ \E w \in Writers : Unmatch(w) \/ Rematch(w)

Next == Step /\ Emit
NextQuiet == Step

Spec == Init /\ [][Next]_vars

=============================================================================
