----------------------------- MODULE MC_TimeConv -----------------------------
(* TLC: evaluates TimeConv on boundary and sampled values, checks the round trip and the       *)
(* arithmetic laws on them and prints one CASE line per evaluation for the conformance harness *)
EXTENDS TimeConv

NsSamples ==
    {0, 1, 2, 3, 4, 5, 232, 233, 234, 465, 466, 999, 1000, 1001, 4999999, 5000000, 5000001, 123456789, 250000000, 499999999, 500000000, 500000001,
     750000000, 999999000, 999999997, 999999998, 999999999}
    \cup {k * 1000003 % NS : k \in 1..1500} \cup {k * 1000000 : k \in 0..999} \cup {k * 1000000 + 1 : k \in 0..999} \cup {k * 1000000 - 1 : k \in 1..1000}
SecSamples == {SecMin, SecMin + 1, -86400, -2, -1, 0, 1, 2, 1700000000, SecMax - 1, SecMax}
NsEdge == {0, 1, 400000000, 500000000, 600000000, NS - 1}
TimeSamples == {T(s, n) : s \in SecSamples, n \in NsEdge}

VARIABLES kind, a, b
vars == <<kind, a, b>>
Init ==
    \/ kind = "conv" /\ a \in {T(s, n) : s \in {SecMin, -1, 0, 1, SecMax}, n \in NsSamples} /\ b = T(0, 0)
    \/ kind = "add" /\ a \in TimeSamples /\ b \in TimeSamples
    \/ kind = "sub" /\ a \in TimeSamples /\ b \in TimeSamples
    \/ kind = "new" /\ a \in {T(s, n) : s \in SecSamples, n \in NsEdge \cup {NS, NS + 1, 2 * NS - 1, 2 * NS, 2147483647}} /\ b = T(0, 0)
Next == UNCHANGED vars
Spec == Init /\ [][Next]_vars

Expected ==
    CASE kind = "conv" -> [frac |-> Frac(a.ns), back |-> T(a.sec, Nanos(Frac(a.ns)))]
      [] kind = "add" -> [r |-> Add(a, b)]
      [] kind = "sub" -> [r |-> Sub(a, b)]
      [] kind = "new" -> [r |-> New(a.sec, a.ns)]
Emit == PrintT(<<"CASE", ToJson([kind |-> kind, a |-> a, b |-> b, e |-> Expected])>>)

Laws ==
    /\ (kind = "conv" => (RoundTrip(a.ns) /\ Frac(a.ns).hi < 65536))
    /\ (kind = "add" => (Normalized(Add(a, b)) /\ (Add(a, b) \in {Largest, Smallest} \/ Leq(a, Add(a, b)) = Leq(T(0, 0), b))))
    /\ (kind = "sub" => Normalized(Sub(a, b)))
    /\ (kind = "new" => Normalized(New(a.sec, a.ns)))
\* monotonicity on the sampled operands: a <= a2 => a + b <= a2 + b and a - b <= a2 - b
Monotone == kind \in {"add", "sub"} =>
    \A a2 \in TimeSamples : Leq(a, a2) => (IF kind = "add" THEN Leq(Add(a, b), Add(a2, b)) ELSE Leq(Sub(a, b), Sub(a2, b)))
Inv == Laws /\ Monotone /\ Emit
=============================================================================
