--------------------------- MODULE Trace_Ownership ---------------------------
(***************************************************************************)
(* Trace validation of EXCLUSIVE ownership end to end (C24): writers of    *)
(* different strength in different participants write the same instances,  *)
(* a reader with EXCLUSIVE ownership and a deadline takes samples.         *)
(*                                                                         *)
(* Per instance the specification keeps the owner and the time of the last *)
(* change accepted for the instance.  A change of writer w is accepted iff *)
(*   - the instance has no owner, or w is the owner, or w is stronger than *)
(*     the owner, or                                                       *)
(*   - the owner has been deleted, or                                      *)
(*   - the owner missed the deadline: nothing was accepted for the         *)
(*     instance for longer than the reader's deadline period.              *)
(* An accepted write makes w the owner, an accepted unregister of the      *)
(* owner leaves the instance without owner.  The deadline is detected by   *)
(* the worker within one period (POKE) and the deletion of a writer needs  *)
(* a discovery message: inside these windows either outcome is legal and   *)
(* the specification takes the one the implementation chose (it looks      *)
(* ahead in the trace whether the sample is ever presented).               *)
(* Verdicts: every sample that had to be accepted is presented by a later  *)
(* take, no sample that had to be ignored ever is.  Times in microseconds. *)
(***************************************************************************)
EXTENDS Integers, Sequences, FiniteSets, TLC, Json, IOUtils, SequencesExt, FiniteSetsExt

Rec == ndJsonDeserialize(IOEnv.TRACE)
N == Len(Rec)
POKE == 50000
SLACK == 20000

VARIABLES l, st, viol, cnt
vars == <<l, st, viol, cnt>>
Empty == [x \in {} |-> 0]
InitSt == [strength |-> Empty, delT |-> Empty, deadline |-> -1, inst |-> Empty, written |-> {}]
CntInit == [scenarios |-> 0, writes |-> 0, accepted |-> 0, ignored |-> 0, takeovers |-> 0, afterdeadline |-> 0, afterdelete |-> 0,
            afterunregister |-> 0, grey |-> 0, takes |-> 0, presented |-> 0]

R(s, v, c) == [s |-> s, v |-> v, c |-> c]
Ext(f, k, v) == [x \in DOMAIN f \cup {k} |-> IF x = k THEN v ELSE f[x]]
Bump(c, f) == [c EXCEPT ![f] = @ + 1]

ScenEnd(k) == LET later == {j \in (k + 1)..N : Rec[j].ev = "Reset"} IN IF later = {} THEN N + 1 ELSE Min(later)
PresentedLater(k, w, seq) ==
    \E j \in (k + 1)..(ScenEnd(k) - 1) :
        /\ Rec[j].ev = "Take"
        /\ \E n \in 1..Len(Rec[j].samples) : Rec[j].samples[n].w = w /\ Rec[j].samples[n].seq = seq

NoOwner == -1
InstOf(s, i) == IF i \in DOMAIN s.inst THEN s.inst[i] ELSE [owner |-> NoOwner, lastT |-> 0]

OnWrite(s, e, c, k) ==
    IF e.ok # 1 THEN R(s, {}, c)
    ELSE
    LET cur == InstOf(s, e.i)
        w == e.w
        t == e.t
        own == cur.owner
        hasOwner == own # NoOwner
        stronger == hasOwner /\ s.strength[w] > s.strength[own]
        deleted == hasOwner /\ own \in DOMAIN s.delT
        goneDef == deleted /\ t > s.delT[own] + SLACK
        goneGrey == deleted /\ ~goneDef
        dl == s.deadline
        expDef == hasOwner /\ dl >= 0 /\ t > cur.lastT + dl + POKE + SLACK
        expGrey == hasOwner /\ dl >= 0 /\ ~expDef /\ t >= cur.lastT + dl - SLACK
        must == ~hasOwner \/ own = w \/ stronger \/ goneDef \/ expDef
        may == goneGrey \/ expGrey
        shown == PresentedLater(k, w, e.seq)
        isWrite == e.kind = "write"
        accepted == must \/ (may /\ (IF isWrite THEN shown ELSE FALSE))
        inst1 == IF ~accepted THEN cur
                 ELSE IF isWrite THEN [owner |-> w, lastT |-> t]
                 ELSE [owner |-> NoOwner, lastT |-> t]
        c1 == [c EXCEPT !.writes = @ + 1,
                        !.accepted = @ + (IF accepted THEN 1 ELSE 0),
                        !.ignored = @ + (IF ~accepted THEN 1 ELSE 0),
                        !.takeovers = @ + (IF accepted /\ stronger THEN 1 ELSE 0),
                        !.afterdeadline = @ + (IF accepted /\ own # w /\ ~stronger /\ expDef THEN 1 ELSE 0),
                        !.afterdelete = @ + (IF accepted /\ own # w /\ ~stronger /\ goneDef THEN 1 ELSE 0),
                        !.afterunregister = @ + (IF accepted /\ ~hasOwner /\ e.i \in DOMAIN s.inst THEN 1 ELSE 0),
                        !.grey = @ + (IF ~must /\ may THEN 1 ELSE 0)]
    IN R([s EXCEPT !.inst = Ext(@, e.i, inst1), !.written = @ \cup {<<w, e.seq>>}],
         (IF isWrite /\ must /\ ~shown THEN {"C24:sample-of-the-rightful-owner-not-presented"} ELSE {})
         \cup (IF isWrite /\ ~must /\ ~may /\ shown THEN {"C24:sample-of-weaker-writer-presented-while-owner-alive"} ELSE {}),
         c1)

OnTake(s, e, c) ==
    LET unknown == {n \in 1..Len(e.samples) : <<e.samples[n].w, e.samples[n].seq>> \notin s.written}
        pairs == {<<e.samples[n].w, e.samples[n].seq>> : n \in 1..Len(e.samples)}
    IN R(s,
         (IF unknown # {} THEN {"C24:presented-sample-never-written"} ELSE {})
         \cup (IF Cardinality(pairs) # Len(e.samples) THEN {"C24:sample-presented-twice"} ELSE {}),
         [c EXCEPT !.takes = @ + 1, !.presented = @ + Len(e.samples)])

Apply(s, e, c, k) ==
    CASE e.ev = "Reset" -> R(InitSt, {}, Bump(c, "scenarios"))
      [] e.ev = "Writer" -> R([s EXCEPT !.strength = Ext(@, e.w, e.strength)], {}, c)
      [] e.ev = "Reader" -> R([s EXCEPT !.deadline = e.deadline], {}, c)
      [] e.ev = "DelWriter" -> R([s EXCEPT !.delT = Ext(@, e.w, e.t)], {}, c)
      [] e.ev = "Write" -> OnWrite(s, e, c, k)
      [] e.ev = "Take" -> OnTake(s, e, c)
      [] e.ev = "SimError" -> R(s, {"C24:simulation-hang-or-panic"}, c)
      [] OTHER -> R(s, {}, c)

Init == l = 1 /\ st = InitSt /\ viol = <<>> /\ cnt = CntInit
Next ==
    /\ l <= N
    /\ LET r == Apply(st, Rec[l], cnt, l)
       IN /\ st' = r.s /\ cnt' = r.c
          /\ viol' = viol \o SetToSeq({[line |-> l, rule |-> x, t |-> Rec[l].t] : x \in r.v})
    /\ l' = l + 1
Spec == Init /\ [][Next]_vars
Done == l = N + 1 => PrintT(<<"TRACE-RESULT", ToJson([lines |-> N, violations |-> viol, counters |-> cnt])>>)
Accepted == TLCGet("stats").diameter - 1 = N
=============================================================================
