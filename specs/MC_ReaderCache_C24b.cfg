\* C24: exclusive ownership over two instances
SPECIFICATION Spec
VIEW view
INVARIANT Inv
CHECK_DEADLOCK FALSE
CONSTANTS
  Instances = {1, 2}
  Writers = {1, 2}
  Timestamps = {1}
  Depth = 0
  MaxS = 0
  MaxI = 0
  MaxSPI = 0
  BySource = FALSE
  Exclusive = TRUE
  StrengthOf <- Strength12
  MinSep = 0
  Kinds = {"ALIVE", "UNREGISTERED"}
  MaxAdds = 4
  MaxAccess = 1
  AccessKinds = {"Read"}
  MaskChoices <- MaskAny
  MaxChoices = {0}
  UseInstArg = FALSE
  MaxUnmatch = 1
