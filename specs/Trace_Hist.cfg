SPECIFICATION Spec
INVARIANT Done
POSTCONDITION Accepted
CHECK_DEADLOCK FALSE
