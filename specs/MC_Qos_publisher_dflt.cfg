SPECIFICATION Spec
VIEW view
INVARIANT AlwaysConsistent
PROPERTY ImmutableKept
CHECK_DEADLOCK FALSE
CONSTANTS
  Kind = "publisher"
  Values <- MCFewValues
  CanBeDisabled <- MCCanBeDisabled
  MaxOps = 4
  DefaultValues <- MCDefaultValues
