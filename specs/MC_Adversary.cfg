SPECIFICATION MCSpec
INVARIANT Emit
INVARIANT Unharmed
CHECK_DEADLOCK FALSE
