SPECIFICATION Spec
VIEW view
INVARIANT TreeConsistent
CHECK_DEADLOCK FALSE
CONSTANTS
  MaxPubs = 0
  MaxSubs = 2
  MaxTopics = 1
  MaxWriters = 0
  MaxCfts = 0
  MaxReaders = 4
  TopicNames = {"A"}
  MaxOps = 8
  Warm = 0
  ChurnAt = {}
