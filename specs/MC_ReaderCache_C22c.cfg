\* C22: instance life cycle with both flavours of unregister (plain and with autodispose), two writers, one instance
SPECIFICATION Spec
VIEW view
INVARIANT Inv
CHECK_DEADLOCK FALSE
CONSTANTS
  Instances = {1}
  Writers = {1, 2}
  Timestamps = {1}
  Depth = 0
  MaxS = 0
  MaxI = 0
  MaxSPI = 0
  BySource = FALSE
  Exclusive = FALSE
  StrengthOf <- Strength0
  MinSep = 0
  Kinds = {"ALIVE", "UNREGISTERED", "DISPOSED_UNREGISTERED"}
  MaxAdds = 5
  MaxAccess = 1
  AccessKinds = {"Read", "Take"}
  MaskChoices <- MaskAny
  MaxChoices = {0}
  UseInstArg = FALSE
  MaxUnmatch = 0
