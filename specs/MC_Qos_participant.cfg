SPECIFICATION Spec
VIEW view
INVARIANT AlwaysConsistent
PROPERTY ImmutableKept
CHECK_DEADLOCK FALSE
CONSTANTS
  Kind = "participant"
  Values <- MCValues
  CanBeDisabled <- MCCanBeDisabled
  MaxOps = 4
  DefaultValues <- MCNoDefaults
