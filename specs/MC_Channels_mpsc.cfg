SPECIFICATION Spec
VIEW view
INVARIANT Inv
CHECK_DEADLOCK FALSE
CONSTANTS
  Kind = "mpsc"
  MaxSenders = 2
  MaxSends = 3
  MaxPolls = 4
  Wakers = {1, 2}
