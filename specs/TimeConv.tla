------------------------------ MODULE TimeConv ------------------------------
(***************************************************************************)
(* Conversions between DDS time/duration (seconds, nanoseconds) and the    *)
(* RTPS wire representation (seconds, fraction of 2^-32 s), and the        *)
(* saturating time arithmetic (C14).                                       *)
(*                                                                         *)
(* The functions are written so that TLC can evaluate them with 32 bit     *)
(* integers: the 32 bit fraction is a pair of 16 bit halves computed by    *)
(* long division, the product fraction * 10^9 / 2^32 by Horner's rule.     *)
(* TimeConvA.tla states the same functions on unbounded integers for       *)
(* Apalache, which proves the round trip for every nanosecond value and    *)
(* the monotonicity of the arithmetic for all operands.                    *)
(***************************************************************************)
EXTENDS Integers, Sequences, FiniteSets, TLC, Json

NS == 1000000000
SecMax == 2147483647
SecMin == (-2147483647) - 1

(* nanoseconds -> fraction: ceil(ns * 2^32 / 10^9).  Rounding up is what   *)
(* makes floor(fraction * 10^9 / 2^32) return ns again.                    *)
RECURSIVE LongDiv(_, _, _)
LongDiv(rem, k, q) ==            \* q collects the next k quotient bits of rem * 2^k / NS
    IF k = 0 THEN [q |-> q, rem |-> rem]
    ELSE LET r2 == rem * 2
             b == IF r2 >= NS THEN 1 ELSE 0
         IN LongDiv(r2 - b * NS, k - 1, q * 2 + b)
Frac(ns) ==
    LET h == LongDiv(ns, 16, 0)
        l == LongDiv(h.rem, 16, 0)
    IN IF l.rem = 0 THEN [hi |-> h.q, lo |-> l.q]
       ELSE IF l.q = 65535 THEN [hi |-> h.q + 1, lo |-> 0]
       ELSE [hi |-> h.q, lo |-> l.q + 1]

(* fraction -> nanoseconds: floor(fraction * 10^9 / 2^32), Horner from the *)
(* least significant bit: floor((floor(x) + n) / 2) = floor((x + n) / 2).  *)
Pow2(i) == IF i = 0 THEN 1 ELSE 2 ^ i
RECURSIVE Horner(_, _, _)
Horner(acc, w, i) == IF i = 16 THEN acc ELSE Horner((acc + ((w \div Pow2(i)) % 2) * NS) \div 2, w, i + 1)
Nanos(f) == Horner(Horner(0, f.lo, 0), f.hi, 0)

RoundTrip(ns) == Nanos(Frac(ns)) = ns

(* saturating arithmetic on normalized values [sec, ns], ns \in 0..NS-1    *)
T(s, n) == [sec |-> s, ns |-> n]
Largest == T(SecMax, NS - 1)
Smallest == T(SecMin, 0)
Leq(a, b) == a.sec < b.sec \/ (a.sec = b.sec /\ a.ns <= b.ns)
Normalized(a) == a.ns >= 0 /\ a.ns < NS /\ a.sec >= SecMin /\ a.sec <= SecMax

\* a.sec + b.sec + c (c \in {0,1}) clamped, written without intermediate overflow
AddSec(a, b, c, n) ==
    IF a >= 0 /\ b >= 0 THEN (IF a > SecMax - b - c THEN Largest ELSE T(a + b + c, n))
    ELSE IF a < 0 /\ b < 0 THEN (IF a + c < SecMin - b THEN Smallest ELSE T((a + c) + b, n))
    ELSE T(a + b + c, n)
Add(a, d) == LET n == a.ns + d.ns IN AddSec(a.sec, d.sec, n \div NS, n % NS)

\* a.sec - b.sec - c (c \in {0,1}) clamped
SubSec(a, b, c, n) ==
    IF a >= 0 /\ b < 0 THEN (IF a - c > SecMax + b THEN Largest ELSE T((a - c) - b, n))
    ELSE IF a < 0 /\ b >= 0 THEN (IF a < SecMin + b + c THEN Smallest ELSE T(a - b - c, n))
    ELSE T(a - b - c, n)
Sub(a, b) == IF a.ns < b.ns THEN SubSec(a.sec, b.sec, 1, NS + a.ns - b.ns) ELSE SubSec(a.sec, b.sec, 0, a.ns - b.ns)

\* constructor: nanoseconds >= 10^9 carry into the seconds
New(sec, nanos) == AddSec(sec, 0, nanos \div NS, nanos % NS)
=============================================================================
