\* C20: read/take with masks, max_samples, specific instance; SampleInfo ranks
SPECIFICATION Spec
VIEW view
INVARIANT Inv
CHECK_DEADLOCK FALSE
CONSTANTS
  Instances = {1}
  Writers = {1}
  Timestamps = {1}
  Depth = 0
  MaxS = 0
  MaxI = 0
  MaxSPI = 0
  BySource = FALSE
  Exclusive = FALSE
  StrengthOf <- Strength0
  MinSep = 0
  Kinds = {"ALIVE", "DISPOSED"}
  MaxAdds = 3
  MaxAccess = 3
  AccessKinds = {"Read", "Take"}
  MaskChoices <- MaskSome
  MaxChoices = {0, 1}
  UseInstArg = FALSE
  MaxUnmatch = 0
