------------------------------- MODULE Compat -------------------------------
(***************************************************************************)
(* Request/offered QoS compatibility (DDS 1.4, 2.2.3, table of RxO         *)
(* policies) and partition matching, as pure operators.  Used as the       *)
(* oracle for dust-dds' two compatibility functions (C15) and by           *)
(* Discovery.tla.                                                          *)
(*                                                                         *)
(* Abstract values: kinds are naturals ordered as in the standard;         *)
(* durations are 0, 1, 2, 3 = the largest finite duration (i32::MAX s)     *)
(* and 4 = infinite.                                                       *)
(***************************************************************************)
EXTENDS Integers, Sequences, FiniteSets, TLC, Json

INF == 4
MAXFIN == 3     \* finite, but its seconds equal those of the infinite sentinel on the wire
Groups == {"durability", "reliability", "liveliness", "deadline", "latency", "destorder", "ownership",
           "presentation", "representation"}

\* every group value is a record with the offered (o*) and the requested (r*) side
Values(g) ==
    CASE g = "durability" -> [o : 0..3, r : 0..3]
      [] g = "reliability" -> [o : 0..1, r : 0..1]
      [] g = "liveliness" -> [ok : 0..2, ol : {1, 2, MAXFIN, INF}, rk : 0..2, rl : {1, 2, MAXFIN, INF}]
      [] g = "deadline" -> [o : {1, 2, MAXFIN, INF}, r : {1, 2, MAXFIN, INF}]
      [] g = "latency" -> [o : {0, 1, MAXFIN, INF}, r : {0, 1, MAXFIN, INF}]
      [] g = "destorder" -> [o : 0..1, r : 0..1]
      [] g = "ownership" -> [o : 0..1, r : 0..1]
      [] g = "presentation" -> [oa : 0..1, oc : BOOLEAN, oo : BOOLEAN, ra : 0..1, rc : BOOLEAN, ro : BOOLEAN]
      [] g = "representation" -> [o : {<<>>, <<0>>, <<2>>, <<2, 0>>, <<0, 2>>}, r : {<<>>, <<0>>, <<2>>, <<0, 2>>}]

Default(g) ==
    CASE g = "durability" -> [o |-> 0, r |-> 0]
      [] g = "reliability" -> [o |-> 1, r |-> 0]
      [] g = "liveliness" -> [ok |-> 0, ol |-> INF, rk |-> 0, rl |-> INF]
      [] g = "deadline" -> [o |-> INF, r |-> INF]
      [] g = "latency" -> [o |-> 0, r |-> 0]
      [] g = "destorder" -> [o |-> 0, r |-> 0]
      [] g = "ownership" -> [o |-> 0, r |-> 0]
      [] g = "presentation" -> [oa |-> 0, oc |-> FALSE, oo |-> FALSE, ra |-> 0, rc |-> FALSE, ro |-> FALSE]
      [] g = "representation" -> [o |-> <<>>, r |-> <<>>]

\* The RxO rule of each policy: TRUE = compatible
Compatible(g, v) ==
    CASE g = "durability" -> v.o >= v.r
      [] g = "reliability" -> v.o >= v.r
      \* liveliness: offered kind >= requested kind AND offered lease <= requested lease
      [] g = "liveliness" -> v.ok >= v.rk /\ v.ol <= v.rl
      [] g = "deadline" -> v.o <= v.r
      [] g = "latency" -> v.o <= v.r
      [] g = "destorder" -> v.o >= v.r
      [] g = "ownership" -> v.o = v.r
      \* presentation: offered scope >= requested; requested coherent/ordered access must be offered
      [] g = "presentation" -> v.oa >= v.ra /\ (v.rc => v.oc) /\ (v.ro => v.oo)
      \* the writer offers the first element of its list (XCDR1 = 0 if empty); an empty reader list is [XCDR1]
      [] g = "representation" ->
            LET offered == IF v.o = <<>> THEN 0 ELSE v.o[1]
                accepted == IF v.r = <<>> THEN {0} ELSE {v.r[n] : n \in 1..Len(v.r)}
            IN offered \in accepted

Incompatible(q) == {g \in Groups : ~Compatible(g, q[g])}

-----------------------------------------------------------------------------
(* Partition matching: a partition list is a set of names; the empty list is the default partition "".
   Names may contain the wildcards * and ? ; a pattern is matched against the literal names of the
   other side (pattern against pattern is outside the enumerated domain). *)
RECURSIVE Glob(_, _)
Glob(p, s) ==   \* p, s: sequences of characters (strings of length 1)
    IF p = <<>> THEN s = <<>>
    ELSE IF Head(p) = "*" THEN Glob(Tail(p), s) \/ (s # <<>> /\ Glob(p, Tail(s)))
    ELSE IF s = <<>> THEN FALSE
    ELSE (Head(p) = "?" \/ Head(p) = Head(s)) /\ Glob(Tail(p), Tail(s))

IsPattern(p) == \E n \in 1..Len(p) : p[n] \in {"*", "?"}
Names(l) == IF l = {} THEN {<<>>} ELSE l
PartitionMatch(a, b) ==
    \E x \in Names(a), y \in Names(b) :
        \/ x = y
        \/ (IsPattern(x) /\ ~IsPattern(y) /\ Glob(x, y))
        \/ (IsPattern(y) /\ ~IsPattern(x) /\ Glob(y, x))
=============================================================================
