SPECIFICATION Spec
VIEW view
INVARIANT InRange
CHECK_DEADLOCK FALSE
CONSTANTS
  Values = {0, 7, 8, 9, 1344, 64999, 65000, 65001, 65535, 65536, 65543, 65544, 70000, 132416, 2000000000, 2000000001}
  MaxOps = 3
