SPECIFICATION Spec
VIEW view
INVARIANT InRange
CHECK_DEADLOCK FALSE
CONSTANTS
  Values = {0, 7, 8, 9, 1344, 64999, 65000, 65001, 2000000000}
  MaxOps = 3
