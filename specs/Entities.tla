------------------------------ MODULE Entities ------------------------------
(***************************************************************************)
(* The entity tree of one DomainParticipant (publishers, subscribers,      *)
(* topics, writers, readers) with the DDS return codes of the public       *)
(* create / delete / use calls (C36) and the uniqueness of the handles of  *)
(* simultaneously existing entities (C35).  One action per public call.    *)
(***************************************************************************)
EXTENDS Integers, Sequences, FiniteSets, TLC, Json

CONSTANTS MaxPubs, MaxSubs, MaxTopics, MaxWriters, MaxReaders, MaxCfts, TopicNames, MaxOps,
          ChurnAt,   \* positions of a history at which Churn may happen ({}: never)
          Warm   \* harness parameter: create/delete cycles done before the replay so that the 8-bit entity counters wrap inside it

VARIABLES pubs, subs, topics, writers, readers,   \* id -> record; every created entity stays in the map
          cfts,                                    \* content filtered topics: id -> [live, topic]
          gone,                                    \* participant deleted
          nOps, lastOp
vars == <<pubs, subs, topics, writers, readers, cfts, gone, nOps, lastOp>>
view == <<pubs, subs, topics, writers, readers, cfts, gone, nOps>>

Empty == [x \in {} |-> 0]
Ext(f, k, v) == [x \in DOMAIN f \cup {k} |-> IF x = k THEN v ELSE f[x]]
Live(f) == {k \in DOMAIN f : f[k].live}
Next1(f) == Cardinality(DOMAIN f) + 1

Init == /\ pubs = Empty /\ subs = Empty /\ topics = Empty /\ writers = Empty /\ readers = Empty /\ cfts = Empty
        /\ gone = FALSE /\ nOps = 0 /\ lastOp = [op |-> "Init"]

Proj == [pubs |-> [k \in DOMAIN pubs |-> pubs[k].live], subs |-> [k \in DOMAIN subs |-> subs[k].live],
         topics |-> [k \in DOMAIN topics |-> topics[k].live], writers |-> [k \in DOMAIN writers |-> writers[k].live],
         readers |-> [k \in DOMAIN readers |-> readers[k].live], cfts |-> [k \in DOMAIN cfts |-> cfts[k].live],
         aux |-> <<pubs, subs, topics, writers, readers, cfts, gone, nOps>>]

Op(name, args, res, tag) == [op |-> name, a |-> args, expect |-> [res |-> res], tag |-> tag]
Tick == nOps < MaxOps /\ nOps' = nOps + 1 /\ ~gone
Same(vs) == UNCHANGED vs

WritersOf(p) == {w \in Live(writers) : writers[w].pub = p}
ReadersOf(s) == {r \in Live(readers) : readers[r].sub = s}
UsersOf(t) == {w \in Live(writers) : writers[w].topic = t} \cup {r \in Live(readers) : readers[r].topic = t}
CftsOf(t) == {c \in Live(cfts) : cfts[c].topic = t}

\* a deleted topic whose name is used again by a live topic
Aliased(t) == \E u \in Live(topics) : topics[u].name = topics[t].name

CreatePub ==
    /\ Tick /\ Cardinality(DOMAIN pubs) < MaxPubs
    /\ pubs' = Ext(pubs, Next1(pubs), [live |-> TRUE])
    /\ Same(<<subs, topics, writers, readers, gone, cfts>>)
    /\ lastOp' = Op("CreatePub", [id |-> Next1(pubs)], "Ok", "create")
DeletePub(p) ==
    /\ Tick /\ p \in DOMAIN pubs
    /\ IF ~pubs[p].live THEN Same(<<pubs>>) /\ lastOp' = Op("DeletePub", [id |-> p], "AlreadyDeleted", "delete:already-deleted")
       ELSE IF WritersOf(p) # {} THEN Same(<<pubs>>) /\ lastOp' = Op("DeletePub", [id |-> p], "PreconditionNotMet", "delete:not-empty")
       ELSE pubs' = [pubs EXCEPT ![p].live = FALSE] /\ lastOp' = Op("DeletePub", [id |-> p], "Ok", "delete")
    /\ Same(<<subs, topics, writers, readers, gone, cfts>>)
CreateSub ==
    /\ Tick /\ Cardinality(DOMAIN subs) < MaxSubs
    /\ subs' = Ext(subs, Next1(subs), [live |-> TRUE])
    /\ Same(<<pubs, topics, writers, readers, gone, cfts>>)
    /\ lastOp' = Op("CreateSub", [id |-> Next1(subs)], "Ok", "create")
DeleteSub(s) ==
    /\ Tick /\ s \in DOMAIN subs
    /\ IF ~subs[s].live THEN Same(<<subs>>) /\ lastOp' = Op("DeleteSub", [id |-> s], "AlreadyDeleted", "delete:already-deleted")
       ELSE IF ReadersOf(s) # {} THEN Same(<<subs>>) /\ lastOp' = Op("DeleteSub", [id |-> s], "PreconditionNotMet", "delete:not-empty")
       ELSE subs' = [subs EXCEPT ![s].live = FALSE] /\ lastOp' = Op("DeleteSub", [id |-> s], "Ok", "delete")
    /\ Same(<<pubs, topics, writers, readers, gone, cfts>>)
CreateTopic(name) ==
    /\ Tick /\ Cardinality(DOMAIN topics) < MaxTopics
    /\ IF \E t \in Live(topics) : topics[t].name = name
       THEN Same(<<topics>>) /\ lastOp' = Op("CreateTopic", [name |-> name, id |-> 0], "PreconditionNotMet", "create:duplicate-topic-name")
       ELSE topics' = Ext(topics, Next1(topics), [live |-> TRUE, name |-> name])
            /\ lastOp' = Op("CreateTopic", [name |-> name, id |-> Next1(topics)], "Ok", "create")
    /\ Same(<<pubs, subs, writers, readers, gone, cfts>>)
DeleteTopic(t) ==
    /\ Tick /\ t \in DOMAIN topics
    /\ IF ~topics[t].live THEN Same(<<topics>>) /\ lastOp' = Op("DeleteTopic", [id |-> t], "AlreadyDeleted",
                                                                IF Aliased(t) THEN "delete:deleted-topic-aliased-by-new-topic-of-same-name"
                                                                ELSE "delete:already-deleted")
       ELSE IF UsersOf(t) # {} THEN Same(<<topics>>) /\ lastOp' = Op("DeleteTopic", [id |-> t], "PreconditionNotMet", "delete:topic-in-use")
       ELSE IF CftsOf(t) # {} THEN Same(<<topics>>) /\ lastOp' = Op("DeleteTopic", [id |-> t], "PreconditionNotMet", "delete:topic-related-to-content-filtered-topic")
       ELSE topics' = [topics EXCEPT ![t].live = FALSE] /\ lastOp' = Op("DeleteTopic", [id |-> t], "Ok", "delete")
    /\ Same(<<pubs, subs, writers, readers, gone, cfts>>)
CreateWriter(p, t) ==
    /\ Tick /\ p \in DOMAIN pubs /\ t \in Live(topics) /\ Cardinality(DOMAIN writers) < MaxWriters
    /\ IF ~pubs[p].live THEN Same(<<writers>>) /\ lastOp' = Op("CreateWriter", [pub |-> p, topic |-> t, id |-> 0], "AlreadyDeleted", "create:parent-deleted")
       ELSE writers' = Ext(writers, Next1(writers), [live |-> TRUE, pub |-> p, topic |-> t])
            /\ lastOp' = Op("CreateWriter", [pub |-> p, topic |-> t, id |-> Next1(writers)], "Ok", "create")
    /\ Same(<<pubs, subs, topics, readers, gone, cfts>>)
DeleteWriter(p, w) ==
    /\ Tick /\ p \in Live(pubs) /\ w \in DOMAIN writers
    /\ IF ~writers[w].live THEN Same(<<writers>>) /\ lastOp' = Op("DeleteWriter", [pub |-> p, id |-> w], "AlreadyDeleted", "delete:already-deleted")
       \* C36 does not say which error a delete through the wrong parent gives; it must fail and change nothing
       ELSE IF writers[w].pub # p THEN Same(<<writers>>) /\ lastOp' = Op("DeleteWriter", [pub |-> p, id |-> w], [anyOf |-> {"PreconditionNotMet", "AlreadyDeleted", "BadParameter"}], "delete:wrong-parent")
       ELSE writers' = [writers EXCEPT ![w].live = FALSE] /\ lastOp' = Op("DeleteWriter", [pub |-> p, id |-> w], "Ok", "delete")
    /\ Same(<<pubs, subs, topics, readers, gone, cfts>>)
CreateReader(s, t) ==
    /\ Tick /\ s \in DOMAIN subs /\ t \in Live(topics) /\ Cardinality(DOMAIN readers) < MaxReaders
    /\ IF ~subs[s].live THEN Same(<<readers>>) /\ lastOp' = Op("CreateReader", [sub |-> s, topic |-> t, id |-> 0], "AlreadyDeleted", "create:parent-deleted")
       ELSE readers' = Ext(readers, Next1(readers), [live |-> TRUE, sub |-> s, topic |-> t])
            /\ lastOp' = Op("CreateReader", [sub |-> s, topic |-> t, id |-> Next1(readers)], "Ok", "create")
    /\ Same(<<pubs, subs, topics, writers, gone, cfts>>)
DeleteReader(s, r) ==
    /\ Tick /\ s \in Live(subs) /\ r \in DOMAIN readers
    /\ IF ~readers[r].live THEN Same(<<readers>>) /\ lastOp' = Op("DeleteReader", [sub |-> s, id |-> r], "AlreadyDeleted", "delete:already-deleted")
       ELSE IF readers[r].sub # s THEN Same(<<readers>>) /\ lastOp' = Op("DeleteReader", [sub |-> s, id |-> r], [anyOf |-> {"PreconditionNotMet", "AlreadyDeleted", "BadParameter"}], "delete:wrong-parent")
       ELSE readers' = [readers EXCEPT ![r].live = FALSE] /\ lastOp' = Op("DeleteReader", [sub |-> s, id |-> r], "Ok", "delete")
    /\ Same(<<pubs, subs, topics, writers, gone, cfts>>)
\* content filtered topics: created on a live topic, deleted explicitly or by delete_contained_entities
CreateCft(t) ==
    /\ Tick /\ t \in Live(topics) /\ Cardinality(DOMAIN cfts) < MaxCfts
    /\ cfts' = Ext(cfts, Next1(cfts), [live |-> TRUE, topic |-> t])
    /\ Same(<<pubs, subs, topics, writers, readers, gone>>)
    /\ lastOp' = Op("CreateCft", [topic |-> t, id |-> Next1(cfts)], "Ok", "create")
DeleteCft(c) ==
    /\ Tick /\ c \in DOMAIN cfts
    /\ IF ~cfts[c].live THEN Same(<<cfts>>) /\ lastOp' = Op("DeleteCft", [id |-> c], "AlreadyDeleted", "delete:already-deleted")
       ELSE cfts' = [cfts EXCEPT ![c].live = FALSE] /\ lastOp' = Op("DeleteCft", [id |-> c], "Ok", "delete")
    /\ Same(<<pubs, subs, topics, writers, readers, gone>>)
\* any operation on an entity: AlreadyDeleted iff the entity was deleted
Use(kind, id) ==
    /\ Tick
    /\ LET f == CASE kind = "pub" -> pubs [] kind = "sub" -> subs [] kind = "topic" -> topics
                  [] kind = "writer" -> writers [] kind = "reader" -> readers
       IN /\ id \in DOMAIN f
          /\ lastOp' = Op("Use", [kind |-> kind, id |-> id], IF f[id].live THEN "Ok" ELSE "AlreadyDeleted",
                          IF f[id].live THEN "use"
                          ELSE IF kind = "topic" /\ Aliased(id) THEN "use:deleted-topic-aliased-by-new-topic-of-same-name"
                          ELSE "use:deleted-entity")
    /\ Same(<<pubs, subs, topics, writers, readers, gone, cfts>>)
Kill(f) == [k \in DOMAIN f |-> [f[k] EXCEPT !.live = FALSE]]
DeleteContained ==
    /\ Tick
    /\ pubs' = Kill(pubs) /\ subs' = Kill(subs) /\ topics' = Kill(topics) /\ writers' = Kill(writers) /\ readers' = Kill(readers) /\ cfts' = Kill(cfts)
    /\ Same(<<gone>>)
    /\ lastOp' = Op("DeleteContained", [x |-> 0], "Ok", "delete-contained")
DeleteParticipant ==
    /\ Tick
    /\ IF Live(pubs) \cup Live(subs) \cup Live(topics) \cup Live(cfts) # {}
       THEN Same(<<gone>>) /\ lastOp' = Op("DeleteParticipant", [x |-> 0], "PreconditionNotMet", "delete:not-empty")
       ELSE gone' = TRUE /\ lastOp' = Op("DeleteParticipant", [x |-> 0], "Ok", "delete-participant")
    /\ Same(<<pubs, subs, topics, writers, readers, cfts>>)

Emit == PrintT(<<"EDGE", ToJson([s |-> Proj, o |-> lastOp', d |-> Proj'])>>)
\* 255 publishers and 255 subscribers are created and deleted again: nothing changes in the entity tree, but the 8-bit
\* counters behind the handles of groups go once around WHILE the entities of the history so far are alive
Churn ==
    /\ Tick /\ nOps \in ChurnAt
    /\ Same(<<pubs, subs, topics, writers, readers, gone, cfts>>)
    /\ lastOp' = Op("Churn", [n |-> 255], "Ok", "churn")

Step ==
    \/ CreatePub \/ CreateSub \/ DeleteContained \/ DeleteParticipant \/ Churn
    \/ \E n \in TopicNames : CreateTopic(n)
    \/ \E p \in 1..MaxPubs : DeletePub(p) \/ \E t \in 1..MaxTopics : CreateWriter(p, t) \/ \E w \in 1..MaxWriters : DeleteWriter(p, w)
    \/ \E s \in 1..MaxSubs : DeleteSub(s) \/ \E t \in 1..MaxTopics : CreateReader(s, t) \/ \E r \in 1..MaxReaders : DeleteReader(s, r)
    \/ \E t \in 1..MaxTopics : DeleteTopic(t) \/ CreateCft(t)
    \/ \E c \in 1..MaxCfts : DeleteCft(c)
    \/ \E k \in {"pub", "sub", "topic", "writer", "reader"}, id \in 1..2 : Use(k, id)
Next == Step /\ Emit
Spec == Init /\ [][Next]_vars

\* C36: a live writer/reader always has a live parent and a live topic
TreeConsistent ==
    /\ \A w \in Live(writers) : pubs[writers[w].pub].live /\ topics[writers[w].topic].live
    /\ \A r \in Live(readers) : subs[readers[r].sub].live /\ topics[readers[r].topic].live
    /\ gone => Live(pubs) \cup Live(subs) \cup Live(topics) \cup Live(writers) \cup Live(readers) \cup Live(cfts) = {}
    /\ \A c \in Live(cfts) : topics[cfts[c].topic].live
=============================================================================
