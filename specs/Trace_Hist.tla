----------------------------- MODULE Trace_Hist -----------------------------
(***************************************************************************)
(* wait_for_historical_data of a reader matched with SEVERAL TRANSIENT_    *)
(* LOCAL writers (C04): the call may only succeed when the retained        *)
(* history of EVERY matched writer has been received.  All writers here    *)
(* are reliable, TRANSIENT_LOCAL, KEEP_ALL and have written before the     *)
(* reader exists, so everything written is history.  Rule: when the wait   *)
(* returns Ok, every sample written so far (by any writer) is presented by *)
(* the takes up to and including the next one.  A Timeout is judged by     *)
(* nothing (the traffic of a writer may be blocked).                       *)
(***************************************************************************)
EXTENDS Integers, Sequences, FiniteSets, TLC, Json, IOUtils, SequencesExt, FiniteSetsExt

Rec == ndJsonDeserialize(IOEnv.TRACE)
N == Len(Rec)

VARIABLES l, st, viol, cnt
vars == <<l, st, viol, cnt>>
InitSt == [written |-> {}, presented |-> {}]
CntInit == [scenarios |-> 0, writes |-> 0, waitok |-> 0, waittimeout |-> 0, takes |-> 0]
R(s, v, c) == [s |-> s, v |-> v, c |-> c]
Bump(c, f) == [c EXCEPT ![f] = @ + 1]

ScenEnd(k) == LET later == {j \in (k + 1)..N : Rec[j].ev = "Reset"} IN IF later = {} THEN N + 1 ELSE Min(later)
NextTake(k) == LET later == {j \in (k + 1)..(ScenEnd(k) - 1) : Rec[j].ev = "Take"} IN IF later = {} THEN 0 ELSE Min(later)
SamplesOf(j) == {<<Rec[j].samples[n].w, Rec[j].samples[n].seq>> : n \in 1..Len(Rec[j].samples)}

OnWaitRet(s, e, c, k) ==
    IF e.res = "Ok" THEN
        LET j == NextTake(k)
            seen == s.presented \cup (IF j = 0 THEN {} ELSE SamplesOf(j))
        IN R(s, IF s.written \ seen # {} THEN {"C04:wait-for-historical-data-succeeded-before-the-history-of-every-writer-arrived"} ELSE {},
             Bump(c, "waitok"))
    ELSE R(s, {}, Bump(c, "waittimeout"))

Apply(s, e, c, k) ==
    CASE e.ev = "Reset" -> R(InitSt, {}, Bump(c, "scenarios"))
      [] e.ev = "Write" -> IF e.ok = 1 THEN R([s EXCEPT !.written = @ \cup {<<e.w, e.seq>>}], {}, Bump(c, "writes")) ELSE R(s, {}, c)
      [] e.ev = "Take" -> R([s EXCEPT !.presented = @ \cup SamplesOf(k)], {}, Bump(c, "takes"))
      [] e.ev = "WaitHistRet" -> OnWaitRet(s, e, c, k)
      [] e.ev = "SimError" -> R(s, {"C04:simulation-hang-or-panic"}, c)
      [] OTHER -> R(s, {}, c)

Init == l = 1 /\ st = InitSt /\ viol = <<>> /\ cnt = CntInit
Next ==
    /\ l <= N
    /\ LET r == Apply(st, Rec[l], cnt, l)
       IN /\ st' = r.s /\ cnt' = r.c
          /\ viol' = viol \o SetToSeq({[line |-> l, rule |-> x, t |-> Rec[l].t] : x \in r.v})
    /\ l' = l + 1
Spec == Init /\ [][Next]_vars
Done == l = N + 1 => PrintT(<<"TRACE-RESULT", ToJson([lines |-> N, violations |-> viol, counters |-> cnt])>>)
Accepted == TLCGet("stats").diameter - 1 = N
=============================================================================
