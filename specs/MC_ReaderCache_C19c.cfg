\* C19: KEEP_LAST(1) default depth with max_samples_per_instance 1 and write/dispose cycles over two instances, max_samples 2
SPECIFICATION Spec
VIEW view
INVARIANT Inv
CHECK_DEADLOCK FALSE
CONSTANTS
  Instances = {1, 2}
  Writers = {1}
  Timestamps = {1}
  Depth = 1
  MaxS = 2
  MaxI = 0
  MaxSPI = 1
  BySource = FALSE
  Exclusive = FALSE
  StrengthOf <- Strength0
  MinSep = 0
  Kinds = {"ALIVE", "DISPOSED"}
  MaxAdds = 5
  MaxAccess = 1
  AccessKinds = {"Take"}
  MaskChoices <- MaskAny
  MaxChoices = {0}
  UseInstArg = FALSE
  MaxUnmatch = 0
