\* C19: resource limits max_samples 3 / max_instances 2 / max_samples_per_instance 2, KEEP_ALL
SPECIFICATION Spec
VIEW view
INVARIANT Inv
CHECK_DEADLOCK FALSE
CONSTANTS
  Instances = {1, 2, 3}
  Writers = {1}
  Timestamps = {1}
  Depth = 0
  MaxS = 3
  MaxI = 2
  MaxSPI = 2
  BySource = FALSE
  Exclusive = FALSE
  StrengthOf <- Strength0
  MinSep = 0
  Kinds = {"ALIVE"}
  MaxAdds = 5
  MaxAccess = 2
  AccessKinds = {"Take"}
  MaskChoices <- MaskAny
  MaxChoices = {0, 1}
  UseInstArg = FALSE
  MaxUnmatch = 0
