------------------------------- MODULE MC_Qos -------------------------------
EXTENDS Qos
\* curated values per kind: the default, mutable changes, immutable changes, every inconsistency rule
Q(rel, hist, mspi, ms, dl, tbf, nrep, ud, pres, part) ==
    [rel |-> rel, hist |-> hist, mspi |-> mspi, ms |-> ms, dl |-> dl, tbf |-> tbf, nrep |-> nrep, ud |-> ud, pres |-> pres, part |-> part]
WriterValues == { Q(1,1,0,0,0,0,0,0,0,0),   \* default
                  Q(1,1,0,0,2,0,0,1,0,0),   \* deadline + user data (mutable)
                  Q(0,1,0,0,0,0,0,0,0,0),   \* best effort (immutable)
                  Q(1,3,3,0,0,0,0,0,0,0),   \* keep last 3, 3 per instance (immutable)
                  Q(1,3,2,0,0,0,0,0,0,0),   \* depth > max_samples_per_instance
                  Q(1,1,2,1,0,0,0,0,0,0),   \* max_samples < max_samples_per_instance
                  Q(1,1,0,1,0,0,0,0,0,0),   \* max_samples limited, per instance unlimited
                  Q(1,1,0,0,2,0,2,0,0,0),   \* two representations
                  Q(1,1,0,0,0,0,0,2,0,0) }  \* user data of 70 000 octets (mutable)
ReaderValues == { Q(0,1,0,0,0,0,0,0,0,0),
                  Q(0,1,0,0,3,2,0,1,0,0),   \* deadline 3 >= filter 2
                  Q(1,1,0,0,0,0,0,0,0,0),
                  Q(0,0,2,2,0,0,0,0,0,0),   \* keep all with limits
                  Q(0,3,2,0,0,0,0,0,0,0),
                  Q(0,1,2,1,0,0,0,0,0,0),
                  Q(0,1,0,0,1,2,0,0,0,0),   \* deadline 1 < filter 2
                  Q(0,1,0,0,0,2,0,0,0,0) }  \* filter with infinite deadline
TopicValues == { Q(0,1,0,0,0,0,0,0,0,0),
                 Q(0,1,0,0,2,0,0,1,0,0),
                 Q(1,1,0,0,0,0,0,0,0,0),
                 Q(0,3,3,3,0,0,0,0,0,0),
                 Q(0,3,2,0,0,0,0,0,0,0),
                 Q(0,1,2,1,0,0,0,0,0,0) }
GroupValues == { Q(0,1,0,0,0,0,0,0,0,0), Q(0,1,0,0,0,0,0,1,0,0), Q(0,1,0,0,0,0,0,0,0,1), Q(0,1,0,0,0,0,0,0,1,0), Q(0,1,0,0,0,0,0,1,1,1) }
ParticipantValues == { Q(0,1,0,0,0,0,0,0,0,0), Q(0,1,0,0,0,0,0,1,0,0), Q(0,1,0,0,0,0,0,2,0,0) }
MCValues == CASE Kind = "writer" -> WriterValues [] Kind = "reader" -> ReaderValues [] Kind = "topic" -> TopicValues
              [] Kind \in {"publisher", "subscriber"} -> GroupValues [] OTHER -> ParticipantValues
\* configurations about the factory default: few entity values, a consistent and an inconsistent value for set_default_*_qos
MCFewValues == CASE Kind = "writer" -> { Q(1,1,0,0,0,0,0,0,0,0), Q(0,1,0,0,0,0,0,0,0,0) }
                 [] Kind = "reader" -> { Q(0,1,0,0,0,0,0,0,0,0), Q(1,1,0,0,0,0,0,0,0,0) }
                 [] Kind = "topic" -> { Q(0,1,0,0,0,0,0,0,0,0), Q(1,1,0,0,0,0,0,0,0,0) }
                 [] OTHER -> { Q(0,1,0,0,0,0,0,0,0,0), Q(0,1,0,0,0,0,0,0,1,0) }
MCDefaultValues == CASE Kind = "writer" -> { Q(1,3,3,0,0,0,0,1,0,0), Q(1,3,2,0,0,0,0,0,0,0) }
                     [] Kind = "reader" -> { Q(0,3,3,0,3,2,0,1,0,0), Q(0,3,2,0,0,0,0,0,0,0), Q(0,1,0,0,1,2,0,0,0,0) }
                     [] Kind = "topic" -> { Q(0,3,3,3,0,0,0,1,0,0), Q(0,3,2,0,0,0,0,0,0,0) }
                     [] OTHER -> { Q(0,1,0,0,0,0,0,1,0,1), Q(0,1,0,0,0,0,0,0,1,0) }
MCNoDefaults == {}
MCCanBeDisabled == {"writer", "reader", "topic"}
=============================================================================
