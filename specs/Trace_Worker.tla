----------------------------- MODULE Trace_Worker -----------------------------
(***************************************************************************)
(* Trace validation of the time driven duties of the dust-dds worker       *)
(* against Worker.tla (C30, C31):                                          *)
(*  - offered / requested deadline-missed total_count equals the number    *)
(*    of full deadline periods that elapsed without a new sample of the    *)
(*    instance (observed at most one worker period late), every increment  *)
(*    is signalled exactly once (listener callback with total_count = k,   *)
(*    total_count_change = 1), nothing is reported while samples keep      *)
(*    arriving within the period;                                          *)
(*  - every delay the worker asks the timer for is within [0, POKE].       *)
(* Times are microseconds since the start of the scenario.                 *)
(***************************************************************************)
EXTENDS Integers, Sequences, FiniteSets, TLC, Json, IOUtils, SequencesExt, FiniteSetsExt, Functions

Rec == ndJsonDeserialize(IOEnv.TRACE)
N == Len(Rec)
POKE == 50000
SLACK == 2000

VARIABLES l, st, viol, cnt
vars == <<l, st, viol, cnt>>
Empty == [x \in {} |-> 0]

InitSt == [wD |-> -1, wTimes |-> Empty, wRead |-> 0, wLis |-> 0,
           rd |-> Empty,      \* reader index -> [D, times (instance -> seq of reception times), lis]
           wait |-> [active |-> FALSE, sawTrue |-> FALSE],
           now |-> 0]
CntInit == [waits |-> 0, waitwoken |-> 0, scenarios |-> 0, offered |-> 0, offeredmiss |-> 0, listener |-> 0, requestedmiss |-> 0, sleep |-> 0, final |-> 0]

R(s, v, c) == [s |-> s, v |-> v, c |-> c]
Bump(c, f) == [c EXCEPT ![f] = @ + 1]
Ext(f, k, v) == [x \in DOMAIN f \cup {k} |-> IF x = k THEN v ELSE f[x]]
Max2(a, b) == IF a > b THEN a ELSE b

\* number of full periods D that elapsed without a new sample, for one instance with sample
\* times `times', observed at time t  (a period boundary that coincides with a sample or with t
\* is not counted)
Missed(times, D, t) ==
    LET gap(k) == (IF k < Len(times) THEN (IF times[k + 1] < t THEN times[k + 1] ELSE t) ELSE t) - times[k]
    IN FoldFunctionOnSet(LAMBDA k, acc : acc + (IF gap(k) > 0 THEN (gap(k) - 1) \div D ELSE 0),
                         0, [k \in 1..Len(times) |-> k], {k \in 1..Len(times) : times[k] < t})
MissedAll(tm, D, t) ==
    FoldFunctionOnSet(LAMBDA i, acc : acc + Missed(tm[i], D, t), 0, [i \in DOMAIN tm |-> i], DOMAIN tm)
Lo(tm, D, t) == MissedAll(tm, D, t - POKE - SLACK)
Hi(tm, D, t) == MissedAll(tm, D, t + SLACK)

AddTime(tm, i, t) == IF i \in DOMAIN tm THEN [tm EXCEPT ![i] = Append(@, t)] ELSE Ext(tm, i, <<t>>)

OnCreateWriter(s, e, c) == R([s EXCEPT !.wD = e.q.deadline], {}, c)
OnCreateReader(s, e, c) == R([s EXCEPT !.rd = Ext(s.rd, Cardinality(DOMAIN s.rd), [D |-> e.q.deadline, times |-> Empty, lis |-> 0])], {}, c)
OnWriteRet(s, e, c) ==
    IF e.res = "Ok" /\ e.kind = "write" THEN R([s EXCEPT !.wTimes = AddTime(@, e.i, e.t0)], {}, c) ELSE R(s, {}, c)
OnRecv(s, e, c) ==
    IF e.r \in DOMAIN s.rd THEN R([s EXCEPT !.rd[e.r].times = AddTime(@, e.i, e.t)], {}, c) ELSE R(s, {}, c)

OnOfferedStatus(s, e, c) ==
    IF s.wD < 0 \/ e.err = 1 THEN R(s, IF e.err = 0 /\ e.tot # 0 THEN {"C30:offered-deadline-missed-without-deadline"} ELSE {}, c)
    ELSE LET lo == Lo(s.wTimes, s.wD, e.t)
             hi == Hi(s.wTimes, s.wD, e.t)
         IN R([s EXCEPT !.wRead = e.tot],
              (IF e.tot < lo THEN {"C30:offered-deadline-missed-count-too-low"} ELSE {})
              \cup (IF e.tot > hi THEN {"C30:offered-deadline-missed-count-too-high"} ELSE {})
              \cup (IF e.chg # e.tot - s.wRead THEN {"C30:offered-deadline-missed-change-field-wrong"} ELSE {}),
              [c EXCEPT !.offered = @ + 1, !.offeredmiss = @ + hi])

OnListener(s, e, c) ==
    IF e.kind = "OfferedDeadlineMissed" THEN
        LET k == s.wLis + 1
        IN R([s EXCEPT !.wLis = k],
             (IF e.tot # k \/ e.chg # 1 THEN {"C30:offered-deadline-missed-not-signalled-once-per-increment"} ELSE {})
             \cup (IF s.wD < 0 \/ k > Hi(s.wTimes, s.wD, e.t) THEN {"C30:offered-deadline-missed-signalled-without-missed-period"} ELSE {}),
             Bump(c, "listener"))
    ELSE IF e.kind = "RequestedDeadlineMissed" /\ e.idx \in DOMAIN s.rd THEN
        LET k == s.rd[e.idx].lis + 1
        IN R([s EXCEPT !.rd[e.idx].lis = k],
             (IF e.tot # k \/ e.chg # 1 THEN {"C30:requested-deadline-missed-not-signalled-once-per-increment"} ELSE {})
             \cup (IF s.rd[e.idx].D < 0 \/ k > Hi(s.rd[e.idx].times, s.rd[e.idx].D, e.t)
                   THEN {"C30:requested-deadline-missed-signalled-without-missed-period"} ELSE {}),
             Bump(c, "listener"))
    ELSE R(s, {}, c)

\* at the end of the scenario every missed period must have been signalled
OnFinal(s, e, c) ==
    R(s,
      (IF e.wlistener = 1 /\ s.wD >= 0 /\ s.wLis < Lo(s.wTimes, s.wD, e.t) THEN {"C30:offered-deadline-missed-increment-not-signalled"} ELSE {})
      \cup UNION {IF s.rd[r].D >= 0 /\ e.rlistener = 1 /\ s.rd[r].lis < Lo(s.rd[r].times, s.rd[r].D, e.t)
                  THEN {"C30:requested-deadline-missed-increment-not-signalled"} ELSE {} : r \in DOMAIN s.rd},
      [c EXCEPT !.final = @ + 1,
                !.requestedmiss = @ + FoldFunctionOnSet(LAMBDA r, acc : acc + (IF s.rd[r].D >= 0 THEN Lo(s.rd[r].times, s.rd[r].D, e.t) ELSE 0),
                                                       0, [r \in DOMAIN s.rd |-> r], DOMAIN s.rd)])

\* C32: WaitSet::wait returns whenever an attached condition is or becomes true
OnWaitCall(s, e, c) == R([s EXCEPT !.wait = [active |-> TRUE, sawTrue |-> e.trigger = 1]], {}, c)
OnTriggerObs(s, e, c) ==
    IF s.wait.active /\ e.trigger = 1 THEN R([s EXCEPT !.wait.sawTrue = TRUE], {}, c) ELSE R(s, {}, c)
OnWaitRet(s, e, c) ==
    R([s EXCEPT !.wait = [active |-> FALSE, sawTrue |-> FALSE]],
      (IF e.res = "Timeout" /\ s.wait.sawTrue THEN {"C32:wait-timed-out-although-a-condition-became-true"} ELSE {})
      \cup (IF e.res = "Ok" /\ e.n < 1 THEN {"C32:wait-returned-without-triggered-condition"} ELSE {})
      \cup (IF e.res = "Ok" /\ ~s.wait.sawTrue /\ e.trigger = 0 THEN {"C32:wait-returned-although-no-condition-is-true"} ELSE {}),
      [c EXCEPT !.waits = @ + 1, !.waitwoken = @ + (IF e.res = "Ok" THEN 1 ELSE 0)])

OnSleep(s, e, c) ==
    R(s, IF e.dns < 0 \/ e.dns > POKE * 1000 THEN {"C31:worker-sleep-outside-0-poke"} ELSE {}, Bump(c, "sleep"))

Apply(s0, e, c) ==
    LET s == [s0 EXCEPT !.now = e.t] IN
    CASE e.ev = "Reset" -> R(InitSt, {}, Bump(c, "scenarios"))
      [] e.ev = "CreateWriter" -> OnCreateWriter(s, e, c)
      [] e.ev = "CreateReader" -> OnCreateReader(s, e, c)
      [] e.ev = "WriteRet" -> OnWriteRet(s, e, c)
      [] e.ev = "Recv" -> OnRecv(s, e, c)
      [] e.ev = "OfferedDeadlineStatus" -> OnOfferedStatus(s, e, c)
      [] e.ev = "Listener" -> OnListener(s, e, c)
      [] e.ev = "Final" -> OnFinal(s, e, c)
      [] e.ev = "Sleep" -> OnSleep(s, e, c)
      [] e.ev = "WaitCall" -> OnWaitCall(s, e, c)
      [] e.ev = "TriggerObs" -> OnTriggerObs(s, e, c)
      [] e.ev = "WaitRet" -> OnWaitRet(s, e, c)
      [] e.ev = "SimError" -> R(s, {"C31:simulation-hang-or-worker-stall"}, c)
      [] OTHER -> R(s, {}, c)

Init == l = 1 /\ st = InitSt /\ viol = <<>> /\ cnt = CntInit
Next ==
    /\ l <= N
    /\ LET r == Apply(st, Rec[l], cnt)
       IN /\ st' = r.s /\ cnt' = r.c
          /\ viol' = viol \o SetToSeq({[line |-> l, rule |-> x, t |-> Rec[l].t] : x \in r.v})
    /\ l' = l + 1
Spec == Init /\ [][Next]_vars
Done == l = N + 1 => PrintT(<<"TRACE-RESULT", ToJson([lines |-> N, violations |-> viol, counters |-> cnt])>>)
Accepted == TLCGet("stats").diameter - 1 = N
=============================================================================
