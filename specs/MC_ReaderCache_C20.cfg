\* C20: read/take with masks, max_samples, specific instance; SampleInfo ranks
SPECIFICATION Spec
VIEW view
INVARIANT Inv
CHECK_DEADLOCK FALSE
CONSTANTS
  Instances = {1, 2}
  Writers = {1}
  Timestamps = {1}
  Depth = 0
  MaxS = 0
  MaxI = 0
  MaxSPI = 0
  BySource = FALSE
  Exclusive = FALSE
  StrengthOf <- Strength0
  MinSep = 0
  Kinds = {"ALIVE", "DISPOSED", "UNREGISTERED"}
  MaxAdds = 4
  MaxAccess = 2
  AccessKinds = {"Read", "Take"}
  MaskChoices <- MaskSome
  MaxChoices = {0, 1, 2}
  UseInstArg = TRUE
  MaxUnmatch = 0
