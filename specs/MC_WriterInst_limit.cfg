SPECIFICATION Spec
VIEW view
INVARIANT RegConsistent
CHECK_DEADLOCK FALSE
CONSTANTS
  Keys = {1, 2, 3}
  MaxOps = 6
  MaxInst = 2
