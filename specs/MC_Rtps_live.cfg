\* liveness under fairness after Heal: 2 changes (unfragmented), 1 fault, 1 removal, 2 datagrams in flight
SPECIFICATION LiveSpec
PROPERTY AllRetainedDelivered
CHECK_DEADLOCK FALSE
CONSTANTS
  MaxSN = 2
  Readers <- R1
  Reliable <- AllReliable
  TransientLocal <- AllTL
  MaxFrags = 1
  MaxFaults = 1
  MaxRemove = 1
  MaxNet = 2
  JumpOnGap = FALSE
