SPECIFICATION Spec
VIEW view
INVARIANT TreeConsistent
CHECK_DEADLOCK FALSE
CONSTANTS
  MaxPubs = 3
  MaxSubs = 2
  MaxTopics = 1
  MaxWriters = 1
  MaxCfts = 0
  MaxReaders = 1
  TopicNames = {"A", "B"}
  MaxOps = 5
  Warm = 254
  ChurnAt = {1, 2, 3}
