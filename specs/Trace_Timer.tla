----------------------------- MODULE Trace_Timer -----------------------------
(***************************************************************************)
(* Trace validation of the std runtime timer against StdTimer.tla (C42).   *)
(* The harness runs the real TimerDriver with several threads; per sleep   *)
(* it records (microseconds, one monotonic clock):                         *)
(*   Polled   t taken BEFORE the first poll, duration                      *)
(*   Ready    t taken AFTER the poll that returned Ready, number of polls  *)
(*            (the harness polls again only when its waker was woken, so a *)
(*            lost wake-up shows as GaveUp)                                *)
(*   Dropped / Watched  wake-ups of the task's waker after the drop        *)
(*   BlockOn / BlockTimeout  result, output, elapsed time                  *)
(* StdTimer!NeverEarly:   Ready.t - Polled.t >= duration                   *)
(* StdTimer!NoLostWakeup: every sleep that was not dropped becomes Ready   *)
(* StdTimer!NoWakeAfterCancel: a sleep dropped more than RACE before its   *)
(*   deadline (so that the Cancel is processed before any entry elapses)   *)
(*   never wakes its task afterwards.  The unconditional statement does    *)
(*   not hold (StdTimer!NoWakeAfterDrop must fail): a Cancel queued just   *)
(*   before the deadline loses against the elapsed-entry sweep.            *)
(***************************************************************************)
EXTENDS Integers, Sequences, FiniteSets, TLC, Json, IOUtils, SequencesExt

Rec == ndJsonDeserialize(IOEnv.TRACE)
N == Len(Rec)
RACE == 300000        \* us: a drop this long before the deadline cannot race with the deadline
LATE == 5000000       \* us: liveness slack for a loaded machine

VARIABLES l, st, viol, cnt
vars == <<l, st, viol, cnt>>
Empty == [x \in {} |-> 0]
InitSt == [polled |-> Empty, dropped |-> Empty]
CntInit == [runs |-> 0, sleeps |-> 0, ready |-> 0, dropped |-> 0, droppedjudged |-> 0, blockon |-> 0, blocktimeoutok |-> 0, blocktimeouttimeout |-> 0, maxlate |-> 0]
R(s, v, c) == [s |-> s, v |-> v, c |-> c]
Ext(f, k, v) == [x \in DOMAIN f \cup {k} |-> IF x = k THEN v ELSE f[x]]
Max2(a, b) == IF a > b THEN a ELSE b

Apply(s, e, c) ==
    CASE e.ev = "Reset" -> R(InitSt, {}, [c EXCEPT !.runs = @ + 1])
      [] e.ev = "Polled" -> R([s EXCEPT !.polled = Ext(@, e.id, [t |-> e.t, dur |-> e.dur])], {}, [c EXCEPT !.sleeps = @ + 1])
      [] e.ev = "Ready" ->
            LET p == s.polled[e.id] IN
            R(s, (IF e.t - p.t < p.dur THEN {"C42:sleep-completed-before-its-deadline"} ELSE {})
                 \cup (IF e.t - p.t > p.dur + LATE THEN {"C42:sleep-completed-far-too-late"} ELSE {}),
              [c EXCEPT !.ready = @ + 1, !.maxlate = Max2(@, e.t - p.t - p.dur)])
      [] e.ev = "GaveUp" -> R(s, {"C42:sleep-never-completed-lost-wakeup"}, c)
      [] e.ev = "Dropped" -> R([s EXCEPT !.dropped = Ext(@, e.id, e.t)], {}, [c EXCEPT !.dropped = @ + 1])
      [] e.ev = "Watched" ->
            LET p == s.polled[e.id]
                judged == s.dropped[e.id] + RACE <= p.t + p.dur
            IN R(s, IF judged /\ e.wakes_after_drop > 0 THEN {"C42:dropped-sleep-woke-its-task"} ELSE {},
                 [c EXCEPT !.droppedjudged = @ + (IF judged THEN 1 ELSE 0)])
      [] e.ev = "BlockOn" ->
            R(s, (IF e.got # e.expect THEN {"C42:block_on-returned-a-different-output"} ELSE {})
                 \cup (IF e.t - e.t0 < e.dur THEN {"C42:sleep-completed-before-its-deadline"} ELSE {}),
              [c EXCEPT !.blockon = @ + 1])
      [] e.ev = "BlockTimeout" ->
            R(s, (IF e.res = "Timeout" /\ e.t - e.t0 < e.timeout THEN {"C42:block_timeout-returned-timeout-before-the-duration"} ELSE {})
                 \cup (IF e.res = "Ok" /\ e.got # e.expect THEN {"C42:block_timeout-returned-a-different-output"} ELSE {})
                 \cup (IF e.res = "Ok" /\ e.t - e.t0 < e.dur THEN {"C42:sleep-completed-before-its-deadline"} ELSE {})
                 \cup (IF e.res = "Timeout" /\ e.dur + 1000000 < e.timeout THEN {"C42:block_timeout-returned-timeout-although-the-future-completed-in-time"} ELSE {}),
              IF e.res = "Ok" THEN [c EXCEPT !.blocktimeoutok = @ + 1] ELSE [c EXCEPT !.blocktimeouttimeout = @ + 1])
      [] OTHER -> R(s, {}, c)

Init == l = 1 /\ st = InitSt /\ viol = <<>> /\ cnt = CntInit
Next ==
    /\ l <= N
    /\ LET r == Apply(st, Rec[l], cnt)
       IN /\ st' = r.s /\ cnt' = r.c
          /\ viol' = viol \o SetToSeq({[line |-> l, rule |-> x, t |-> Rec[l].t] : x \in r.v})
    /\ l' = l + 1
Spec == Init /\ [][Next]_vars
Done == l = N + 1 => PrintT(<<"TRACE-RESULT", ToJson([lines |-> N, violations |-> viol, counters |-> cnt])>>)
Accepted == TLCGet("stats").diameter - 1 = N
=============================================================================
