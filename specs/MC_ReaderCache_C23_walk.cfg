\* random walks: three instances, two writers, all kinds, many accesses of every kind with every mask (C23)
SPECIFICATION Spec
VIEW view
INVARIANT Inv
CHECK_DEADLOCK FALSE
CONSTANTS
  Instances = {1, 2, 3}
  Writers = {1, 2}
  Timestamps = {1, 2}
  Depth = 0
  MaxS = 0
  MaxI = 0
  MaxSPI = 0
  BySource = FALSE
  Exclusive = FALSE
  StrengthOf <- Strength0
  MinSep = 0
  Kinds = {"ALIVE", "DISPOSED", "UNREGISTERED", "DISPOSED_UNREGISTERED"}
  MaxAdds = 8
  MaxAccess = 6
  AccessKinds = {"Read", "Take", "ReadNext", "TakeNext"}
  MaskChoices <- MaskSome
  MaxChoices = {0, 1}
  UseInstArg = FALSE
  MaxUnmatch = 1
