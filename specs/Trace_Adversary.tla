--------------------------- MODULE Trace_Adversary ---------------------------
(***************************************************************************)
(* Trace validation for Adversary.tla (C06): Inject(m) must be a           *)
(* stuttering step for well behaved peers.  For every injected datagram    *)
(* the harness records the peak of additionally allocated heap bytes while *)
(* it was processed; after the injections a fresh, well behaved            *)
(* participant probes the victim (API calls answered, discovery and        *)
(* matching in both directions, one sample in each direction).             *)
(***************************************************************************)
EXTENDS Integers, Sequences, FiniteSets, TLC, Json, IOUtils, SequencesExt

Rec == ndJsonDeserialize(IOEnv.TRACE)
N == Len(Rec)
MemFactor == 100
MemSlack == 4000000
MaxWallUs == 20000000

VARIABLES l, st, viol, cnt
vars == <<l, st, viol, cnt>>
InitSt == [injected |-> 0, probed |-> FALSE]
CntInit == [scenarios |-> 0, injected |-> 0, probes |-> 0, probesok |-> 0]
R(s, v, c) == [s |-> s, v |-> v, c |-> c]

Apply(s, e, c) ==
    CASE e.ev = "Reset" -> R(InitSt, {}, [c EXCEPT !.scenarios = @ + 1])
      [] e.ev = "Injected" ->
            R([s EXCEPT !.injected = @ + 1],
              (IF e.peak > MemFactor * e.len + MemSlack THEN {"C06:memory-not-proportional-to-datagram-size"} ELSE {})
              \cup (IF e.wall_us > MaxWallUs THEN {"C06:datagram-not-processed-promptly"} ELSE {}),
              [c EXCEPT !.injected = @ + 1])
      [] e.ev = "Probe" ->
            R([s EXCEPT !.probed = TRUE],
              IF e.ok = 0 THEN {"C06:participant-no-longer-communicates-with-well-behaved-peer"} ELSE {},
              [c EXCEPT !.probes = @ + 1, !.probesok = @ + e.ok])
      [] e.ev = "SimError" -> R(s, {"C06:panic-or-hang-while-processing-datagram"}, c)
      [] OTHER -> R(s, {}, c)

Init == l = 1 /\ st = InitSt /\ viol = <<>> /\ cnt = CntInit
Next ==
    /\ l <= N
    /\ LET r == Apply(st, Rec[l], cnt)
       IN /\ st' = r.s /\ cnt' = r.c
          /\ viol' = viol \o SetToSeq({[line |-> l, rule |-> x, t |-> Rec[l].t] : x \in r.v})
    /\ l' = l + 1
Spec == Init /\ [][Next]_vars
Done == l = N + 1 => PrintT(<<"TRACE-RESULT", ToJson([lines |-> N, violations |-> viol, counters |-> cnt])>>)
Accepted == TLCGet("stats").diameter - 1 = N
=============================================================================
