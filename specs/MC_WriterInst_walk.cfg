SPECIFICATION Spec
VIEW view
INVARIANT RegConsistent
CHECK_DEADLOCK FALSE
CONSTANTS
  Keys = {1, 2, 3, 4}
  MaxOps = 16
  MaxInst = 0
