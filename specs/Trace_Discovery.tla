--------------------------- MODULE Trace_Discovery ---------------------------
(***************************************************************************)
(* Trace validation of participant / endpoint discovery, matching and      *)
(* matched-status bookkeeping of the real dust-dds against the rules of    *)
(* Discovery.tla (C16, C17):                                               *)
(*  - the matched set of a writer/reader is exactly the set of live,       *)
(*    compatible remote endpoints of reachable participants of the same    *)
(*    domain and tag that are not ignored;                                 *)
(*  - current_count = size of that set, total_count = number of match      *)
(*    events, the change fields = difference since the status was read;    *)
(*  - no DATA / HEARTBEAT is addressed to a reader that left;              *)
(*  - a silent participant is kept for its lease duration after the last   *)
(*    communication and removed at most one worker period later; it is     *)
(*    rediscovered when announcements get through again; ignored and       *)
(*    foreign-domain/tag participants are never discovered.                *)
(* Scenarios let every change settle before the next observation, so the   *)
(* expected values are exact.  Times in microseconds.                      *)
(***************************************************************************)
EXTENDS Integers, Sequences, FiniteSets, TLC, Json, IOUtils, SequencesExt, FiniteSetsExt

Rec == ndJsonDeserialize(IOEnv.TRACE)
N == Len(Rec)
POKE == 50000
LEASE == 100000000
ANNOUNCE == 5000000     \* participant announcement period
SETTLE == 1000000

VARIABLES l, st, viol, cnt
vars == <<l, st, viol, cnt>>
Empty == [x \in {} |-> 0]

InitSt == [pt |-> Empty,    \* net -> participant record
           wr |-> Empty,    \* writer index -> record
           rd |-> Empty,    \* reader index -> record
           now |-> 0, healT |-> 0,
           lossy |-> FALSE]   \* discovery traffic was lossy at some point of the scenario: the NUMBER of match events is then
                              \* not determined by the API history (an endpoint may come and go unnoticed), only the final matched set is
CntInit == [pubstatus |-> 0, substatus |-> 0, discovered |-> 0, unmatch |-> 0, scenarios |-> 0,
            removed |-> 0, rediscovered |-> 0, isolated |-> 0]

R(s, v, c) == [s |-> s, v |-> v, c |-> c]
Bump(c, f) == [c EXCEPT ![f] = @ + 1]
Ext(f, k, v) == [x \in DOMAIN f \cup {k} |-> IF x = k THEN v ELSE f[x]]

\* request/offered compatibility on the policies the scenarios vary (Compat.tla rules)
RelRank(q) == IF q.rel = "RELIABLE" THEN 1 ELSE 0
DurRank(q) == IF q.dur = "TRANSIENT_LOCAL" THEN 1 ELSE 0
DlVal(q) == IF q.deadline < 0 THEN 2000000000 ELSE q.deadline
Compatible(wq, rq) == RelRank(wq) >= RelRank(rq) /\ DurRank(wq) >= DurRank(rq) /\ DlVal(wq) <= DlVal(rq)

\* is participant b (as seen from a) expected to be reachable / known at time t
Reachable(s, a, b, t) ==
    /\ a # b /\ a \in DOMAIN s.pt /\ b \in DOMAIN s.pt
    /\ s.pt[a].domain = s.pt[b].domain /\ s.pt[a].tag = s.pt[b].tag
    /\ s.pt[a].alive /\ s.pt[b].alive
    /\ b \notin s.pt[a].ignored

\* silent for longer than lease + slack: must be gone;  Gone / Kept are the two definite verdicts
Gone(s, a, b, t) == (s.pt[b].silenced >= 0 /\ t > s.pt[b].silenced + LEASE + POKE + SETTLE)
                    \/ (s.pt[a].silenced >= 0 /\ t > s.pt[a].silenced + LEASE + POKE + SETTLE)
Kept(s, a, b, t) == (s.pt[b].silenced < 0 \/ t + SETTLE < s.pt[b].lastData + LEASE)
                    /\ (s.pt[a].silenced < 0 \/ t + SETTLE < s.pt[a].lastData + LEASE)

\* expected matched readers of writer w (only when every involved participant has a definite verdict)
ExpMatched(s, w) ==
    {r \in DOMAIN s.rd : s.rd[r].alive /\ s.wr[w].alive /\ Reachable(s, s.wr[w].net, s.rd[r].net, s.now)
                         /\ ~Gone(s, s.wr[w].net, s.rd[r].net, s.now)
                         /\ Compatible(s.wr[w].q, s.rd[r].q)}
\* expected matched writers of reader r: the view of the READER's participant decides (ignoring is one-sided: the ignored
\* participant does not learn of it and keeps the ignoring one matched)
ExpMatchedR(s, r) ==
    {w \in DOMAIN s.wr : s.rd[r].alive /\ s.wr[w].alive /\ Reachable(s, s.rd[r].net, s.wr[w].net, s.now)
                         /\ ~Gone(s, s.rd[r].net, s.wr[w].net, s.now)
                         /\ Compatible(s.wr[w].q, s.rd[r].q)}
Definite(s, a) == /\ \A b \in DOMAIN s.pt : (a # b /\ s.pt[b].silenced >= 0) => (Gone(s, a, b, s.now) \/ Kept(s, a, b, s.now))
                  \* a participant deleted while the discovery traffic was lossy may be remembered by the others until its lease expires
                  /\ \A b \in DOMAIN s.pt : (a # b /\ s.pt[b].lossyDel >= 0) => s.now > s.pt[b].lossyDel + LEASE + POKE + SETTLE

\* recompute expectations after a change of the world: new matches count once
Refresh(s) ==
    [s EXCEPT !.wr = [w \in DOMAIN s.wr |->
                        LET e == ExpMatched(s, w)
                        IN [s.wr[w] EXCEPT !.exp = e, !.tot = @ + Cardinality(e \ s.wr[w].exp)]],
              !.rd = [r \in DOMAIN s.rd |->
                        LET e == ExpMatchedR(s, r)
                        IN [s.rd[r] EXCEPT !.exp = e, !.tot = @ + Cardinality(e \ s.rd[r].exp)]]]

OnParticipant(s, e, c) ==
    R(Refresh([s EXCEPT !.pt = Ext(s.pt, e.net, [domain |-> e.domain, tag |-> e.tag, alive |-> TRUE, silenced |-> -1,
                                                  lastData |-> 0, ignored |-> {}, unsilenced |-> -1, lossyDel |-> -1])]), {}, c)
OnCreateWriter(s, e, c) ==
    LET w == Cardinality(DOMAIN s.wr)
    IN R(Refresh([s EXCEPT !.wr = Ext(s.wr, w, [net |-> e.net, q |-> e.q, alive |-> e.ok = 1, exp |-> {}, tot |-> 0,
                                                  readCur |-> 0, readTot |-> 0])]), {}, c)
OnCreateReader(s, e, c) ==
    LET r == Cardinality(DOMAIN s.rd)
    IN R(Refresh([s EXCEPT !.rd = Ext(s.rd, r, [net |-> e.net, q |-> e.q, alive |-> e.ok = 1, exp |-> {}, tot |-> 0,
                                                  readCur |-> 0, readTot |-> 0, died |-> -1])]), {}, c)
OnDeleteReader(s, e, c) ==
    IF e.r \in DOMAIN s.rd THEN R(Refresh([s EXCEPT !.rd[e.r].alive = FALSE, !.rd[e.r].died = e.t]), {}, Bump(c, "unmatch"))
    ELSE R(s, {}, c)
OnSetReaderQos(s, e, c) ==
    IF e.r \in DOMAIN s.rd /\ e.ok = 1 THEN R(Refresh([s EXCEPT !.rd[e.r].q = e.q]), {}, c) ELSE R(s, {}, c)
OnSilence(s, e, c) ==
    IF e.net \in DOMAIN s.pt THEN R([s EXCEPT !.pt[e.net].silenced = e.t], {}, c) ELSE R(s, {}, c)
OnUnsilence(s, e, c) ==
    R([s EXCEPT !.pt = [p \in DOMAIN s.pt |-> IF s.pt[p].silenced >= 0
                                               THEN [s.pt[p] EXCEPT !.silenced = -1, !.unsilenced = e.t, !.lastData = e.t]
                                               ELSE s.pt[p]]], {}, c)
OnDeleteParticipant(s, e, c) ==
    IF e.net \in DOMAIN s.pt
    THEN R(Refresh([s EXCEPT !.pt[e.net].alive = FALSE, !.pt[e.net].lossyDel = IF s.lossy THEN e.t ELSE -1,
                             !.rd = [r \in DOMAIN s.rd |-> IF s.rd[r].net = e.net THEN [s.rd[r] EXCEPT !.alive = FALSE, !.died = e.t] ELSE s.rd[r]],
                             !.wr = [w \in DOMAIN s.wr |-> IF s.wr[w].net = e.net THEN [s.wr[w] EXCEPT !.alive = FALSE] ELSE s.wr[w]]]),
           {}, Bump(c, "unmatch"))
    ELSE R(s, {}, c)
OnIgnore(s, e, c) ==
    IF e.net \in DOMAIN s.pt THEN R(Refresh([s EXCEPT !.pt[e.net].ignored = @ \cup {e.target}]), {}, c) ELSE R(s, {}, c)

\* a datagram carrying DATA from participant `from` was delivered to `to`: communication is alive
OnDeliverData(s, e, c) ==
    IF e.from \in DOMAIN s.pt /\ s.pt[e.from].silenced < 0
    THEN R([s EXCEPT !.pt[e.from].lastData = e.t], {}, c) ELSE R(s, {}, c)

StatusRules(kind, rec, e, s0, a) ==
    LET s == Refresh(s0)
        x == IF kind = "pub" THEN s.wr[e.i] ELSE s.rd[e.i]
        cur == Cardinality(x.exp)
    IN IF ~Definite(s, a) THEN {} ELSE
       (IF e.cur # cur THEN {"C16:current-count-differs-from-matched-set"} ELSE {})
       \cup (IF e.n # cur THEN {"C16:matched-endpoints-list-differs-from-expected-set"} ELSE {})
       \cup (IF ~s.lossy /\ e.tot # x.tot THEN {"C16:total-count-differs-from-number-of-match-events"} ELSE {})
       \cup (IF ~s.lossy /\ e.curChg # cur - x.readCur THEN {"C16:current-count-change-wrong"} ELSE {})
       \cup (IF ~s.lossy /\ e.totChg # x.tot - x.readTot THEN {"C16:total-count-change-wrong"} ELSE {})
       \cup (IF s.lossy /\ e.tot < cur THEN {"C16:total-count-below-current-count"} ELSE {})

OnPubStatus(s, e, c) ==
    IF e.i \notin DOMAIN s.wr \/ e.err = 1 THEN R(s, {}, c)
    ELSE LET s1 == Refresh(s)
         IN R([s1 EXCEPT !.wr[e.i].readCur = Cardinality(s1.wr[e.i].exp), !.wr[e.i].readTot = s1.wr[e.i].tot],
              StatusRules("pub", s1.wr[e.i], e, s, s.wr[e.i].net), Bump(c, "pubstatus"))
OnSubStatus(s, e, c) ==
    IF e.i \notin DOMAIN s.rd \/ e.err = 1 THEN R(s, {}, c)
    ELSE LET s1 == Refresh(s)
         IN R([s1 EXCEPT !.rd[e.i].readCur = Cardinality(s1.rd[e.i].exp), !.rd[e.i].readTot = s1.rd[e.i].tot],
              StatusRules("sub", s1.rd[e.i], e, s, s.rd[e.i].net), Bump(c, "substatus"))

\* C17
OnDiscovered(s, e, c) ==
    LET a == e.net
        knows == {e.knows[n] : n \in 1..Len(e.knows)} \ {a}
        others == DOMAIN s.pt \ {a}
        must == {b \in others : Reachable(s, a, b, e.t) /\ Kept(s, a, b, e.t)
                                /\ (s.pt[b].unsilenced < 0 \/ e.t > s.pt[b].unsilenced + ANNOUNCE + SETTLE)
                                /\ (s.pt[a].unsilenced < 0 \/ e.t > s.pt[a].unsilenced + ANNOUNCE + SETTLE)}
        mustnot == {b \in others : ~Reachable(s, a, b, e.t) \/ Gone(s, a, b, e.t)}
        foreign == {b \in others : s.pt[a].domain # s.pt[b].domain \/ s.pt[a].tag # s.pt[b].tag}
    IN R(s,
         (IF \E b \in must : b \notin knows THEN {"C17:participant-of-same-domain-and-tag-not-discovered"} ELSE {})
         \cup (IF \E b \in foreign : b \in knows THEN {"C17:participant-of-other-domain-or-tag-discovered"} ELSE {})
         \cup (IF \E b \in mustnot \ foreign : b \in knows /\ b \in s.pt[a].ignored THEN {"C17:ignored-participant-discovered"} ELSE {})
         \cup (IF \E b \in mustnot \ foreign : b \in knows /\ b \notin s.pt[a].ignored /\ s.pt[b].alive
               THEN {"C17:silent-participant-not-removed-after-lease-plus-one-period"} ELSE {})
         \cup (IF \E b \in others : s.pt[b].silenced >= 0 /\ Reachable(s, a, b, e.t) /\ Kept(s, a, b, e.t) /\ b \notin knows
               THEN {"C17:participant-removed-before-its-lease-expired"} ELSE {}),
         [c EXCEPT !.discovered = @ + 1,
                   !.removed = @ + Cardinality({b \in mustnot \ foreign : s.pt[b].silenced >= 0}),
                   !.rediscovered = @ + Cardinality({b \in must : s.pt[b].unsilenced >= 0}),
                   !.isolated = @ + Cardinality(foreign)])

\* C16: nothing is addressed to a reader that left more than a settle period ago
OnSend(s, e, c) ==
    LET ws == {w \in DOMAIN s.wr : s.wr[w].net = e.from}
        dead == {r \in DOMAIN s.rd : s.rd[r].net = e.to /\ ~s.rd[r].alive /\ s.rd[r].died >= 0 /\ e.t > s.rd[r].died + SETTLE}
        live == {r \in DOMAIN s.rd : s.rd[r].net = e.to /\ s.rd[r].alive}
    IN R(s, IF ~s.lossy /\ e.meta = 0 /\ ws # {} /\ dead # {} /\ live = {} /\ e.hasdata = 1
            THEN {"C16:data-or-heartbeat-addressed-to-departed-reader"} ELSE {}, c)

Apply(s0, e, c) ==
    LET s == [s0 EXCEPT !.now = e.t] IN
    CASE e.ev = "Reset" -> R(InitSt, {}, Bump(c, "scenarios"))
      [] e.ev = "Participant" -> OnParticipant(s, e, c)
      [] e.ev = "CreateWriter" -> OnCreateWriter(s, e, c)
      [] e.ev = "CreateReader" -> OnCreateReader(s, e, c)
      [] e.ev = "DeleteReader" -> OnDeleteReader(s, e, c)
      [] e.ev = "SetReaderQos" -> OnSetReaderQos(s, e, c)
      [] e.ev = "Silence" -> OnSilence(s, e, c)
      [] e.ev = "Unsilence" -> OnUnsilence(s, e, c)
      [] e.ev = "DeleteParticipant" -> OnDeleteParticipant(s, e, c)
      [] e.ev = "Ignore" -> OnIgnore(s, e, c)
      [] e.ev = "MetaFaults" -> R([s EXCEPT !.lossy = @ \/ e.on = 1], {}, c)
      [] e.ev = "DeliverData" -> OnDeliverData(s, e, c)
      [] e.ev = "PubStatus" -> OnPubStatus(s, e, c)
      [] e.ev = "SubStatus" -> OnSubStatus(s, e, c)
      [] e.ev = "Discovered" -> OnDiscovered(s, e, c)
      [] e.ev = "SendUser" -> OnSend(s, e, c)
      [] e.ev = "SimError" -> R(s, {"C06:simulation-hang-or-panic"}, c)
      [] OTHER -> R(s, {}, c)

Init == l = 1 /\ st = InitSt /\ viol = <<>> /\ cnt = CntInit
Next ==
    /\ l <= N
    /\ LET r == Apply(st, Rec[l], cnt)
       IN /\ st' = r.s /\ cnt' = r.c
          /\ viol' = viol \o SetToSeq({[line |-> l, rule |-> x, t |-> Rec[l].t] : x \in r.v})
    /\ l' = l + 1
Spec == Init /\ [][Next]_vars
Done == l = N + 1 => PrintT(<<"TRACE-RESULT", ToJson([lines |-> N, violations |-> viol, counters |-> cnt])>>)
Accepted == TLCGet("stats").diameter - 1 = N
=============================================================================
