SPECIFICATION Spec
VIEW view
INVARIANT NoLostWakeup
CHECK_DEADLOCK FALSE
CONSTANTS
  Statuses = {1, 2}
  Waiters = {1, 2}
  InitEnabled = {1}
  MaxOps = 6
