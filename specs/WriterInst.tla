----------------------------- MODULE WriterInst -----------------------------
(***************************************************************************)
(* Instance management contract of one DataWriter (C28).                   *)
(* One action per public call of DataWriterAsync: register_instance,       *)
(* unregister_instance, dispose, write, lookup_instance, enable.  The      *)
(* writer is created on a keyed or a keyless type, enabled or not yet      *)
(* enabled (publisher with autoenable_created_entities = FALSE).           *)
(*                                                                         *)
(* Abstract state: the set of registered keys.  A key is registered by     *)
(* register_instance and implicitly by write; it stops being registered    *)
(* with unregister_instance; dispose leaves it registered.  The handle of  *)
(* an instance is a function of its key only (HandleOf is evaluated by     *)
(* the harness: the big-endian key padded to 16 bytes).                    *)
(*                                                                         *)
(* RESOURCE_LIMITS.max_instances (MaxInst, 0 = unlimited): the writer      *)
(* keeps an entry for every key it has ever registered or written (known); *)
(* an instance it already knows never needs a new entry, a new one is      *)
(* refused with OutOfResources when the writer holds MaxInst entries.      *)
(* dust-dds keeps the entry of an unregistered instance, so it still       *)
(* counts (the statements do not say; the model follows the code).         *)
(***************************************************************************)
EXTENDS Integers, Sequences, FiniteSets, TLC, Json

CONSTANTS Keys, MaxOps, MaxInst

VARIABLES created, keyed, enabled, reg, known, nOps, lastOp
vars == <<created, keyed, enabled, reg, known, nOps, lastOp>>
view == <<created, keyed, enabled, reg, known, nOps>>

Init == created = FALSE /\ keyed = FALSE /\ enabled = FALSE /\ reg = {} /\ known = {} /\ nOps = 0 /\ lastOp = [op |-> "Init"]

\* projection compared with the real writer: lookup_instance of every key
Proj == [created |-> created, keyed |-> keyed, enabled |-> enabled,
         lookup |-> IF ~created \/ ~keyed THEN [k \in Keys |-> "n/a"]
                    ELSE IF ~enabled THEN [k \in Keys |-> "NotEnabled"]
                    ELSE [k \in Keys |-> IF k \in reg THEN "Some" ELSE "None"],
         aux |-> <<reg, known, nOps>>]

Op(name, args, res, tag) == [op |-> name, a |-> args, expect |-> res, tag |-> tag]
Tick == nOps < MaxOps /\ nOps' = nOps + 1

Create(kd, en) ==
    /\ ~created /\ Tick
    /\ created' = TRUE /\ keyed' = kd /\ enabled' = en /\ reg' = {} /\ known' = {}
    /\ lastOp' = Op("Create", [keyed |-> kd, enabled |-> en], [res |-> "Ok"], "create")

Enable ==
    /\ created /\ Tick
    /\ enabled' = TRUE /\ UNCHANGED <<created, keyed, reg, known>>
    /\ lastOp' = Op("Enable", [x |-> 0], [res |-> "Ok"], IF enabled THEN "enable:again" ELSE "enable")

\* common guards of the instance operations
Guard(name, k, tagp) ==
    IF ~enabled THEN [hit |-> TRUE, op |-> Op(name, [k |-> k], [res |-> "NotEnabled"], tagp \o ":not-enabled")]
    ELSE IF ~keyed THEN [hit |-> TRUE, op |-> Op(name, [k |-> k], [res |-> "IllegalOperation"], tagp \o ":keyless")]
    ELSE [hit |-> FALSE]

Full(k) == MaxInst > 0 /\ k \notin known /\ Cardinality(known) >= MaxInst

Register(k) ==
    /\ created /\ Tick /\ UNCHANGED <<created, keyed, enabled>>
    /\ LET g == Guard("Register", k, "register") IN
       IF g.hit THEN reg' = reg /\ known' = known /\ lastOp' = g.op
       ELSE IF Full(k) THEN reg' = reg /\ known' = known /\ lastOp' = Op("Register", [k |-> k], [res |-> "OutOfResources"], "register:out-of-resources")
       ELSE /\ reg' = reg \cup {k} /\ known' = known \cup {k}
            /\ lastOp' = Op("Register", [k |-> k], [res |-> "Ok", handle |-> k],
                            IF k \in reg THEN "register:idempotent"
                            ELSE IF MaxInst > 0 /\ Cardinality(known) >= MaxInst THEN "register:known-instance-at-the-limit"
                            ELSE "register:new")

Unregister(k) ==
    /\ created /\ Tick /\ UNCHANGED <<created, keyed, enabled, known>>
    /\ LET g == Guard("Unregister", k, "unregister") IN
       IF g.hit THEN reg' = reg /\ lastOp' = g.op
       ELSE IF k \notin reg THEN reg' = reg /\ lastOp' = Op("Unregister", [k |-> k], [res |-> "BadParameter"], "unregister:unknown")
       ELSE reg' = reg \ {k} /\ lastOp' = Op("Unregister", [k |-> k], [res |-> "Ok"], "unregister:registered")

Dispose(k) ==
    /\ created /\ Tick /\ UNCHANGED <<created, keyed, enabled, known>>
    /\ LET g == Guard("Dispose", k, "dispose") IN
       IF g.hit THEN reg' = reg /\ lastOp' = g.op
       ELSE IF k \notin reg THEN reg' = reg /\ lastOp' = Op("Dispose", [k |-> k], [res |-> "BadParameter"], "dispose:unknown")
       ELSE reg' = reg /\ lastOp' = Op("Dispose", [k |-> k], [res |-> "Ok"], "dispose:registered")

Write(k) ==
    /\ created /\ Tick /\ UNCHANGED <<created, keyed, enabled>>
    /\ IF ~enabled THEN reg' = reg /\ known' = known /\ lastOp' = Op("Write", [k |-> k], [res |-> "NotEnabled"], "write:not-enabled")
       ELSE IF ~keyed THEN reg' = reg /\ known' = known /\ lastOp' = Op("Write", [k |-> k], [res |-> "Ok"], "write:keyless")
       ELSE IF Full(k) THEN reg' = reg /\ known' = known /\ lastOp' = Op("Write", [k |-> k], [res |-> "OutOfResources"], "write:out-of-resources")
       ELSE reg' = reg \cup {k} /\ known' = known \cup {k}
            /\ lastOp' = Op("Write", [k |-> k], [res |-> "Ok"],
                            IF k \in reg THEN "write:registered" ELSE "write:implicit-registration")

Lookup(k) ==
    /\ created /\ keyed /\ Tick /\ UNCHANGED <<created, keyed, enabled, reg, known>>
    /\ IF ~enabled THEN lastOp' = Op("Lookup", [k |-> k], [res |-> "NotEnabled"], "lookup:not-enabled")
       ELSE IF k \in reg THEN lastOp' = Op("Lookup", [k |-> k], [res |-> "Ok", handle |-> k], "lookup:registered")
       ELSE lastOp' = Op("Lookup", [k |-> k], [res |-> "Ok", handle |-> 0], "lookup:unknown")

Emit == PrintT(<<"EDGE", ToJson([s |-> Proj, o |-> lastOp', d |-> Proj'])>>)
Step ==
    \/ \E kd \in BOOLEAN, en \in BOOLEAN : Create(kd, en)
    \/ Enable
    \/ \E k \in Keys : Register(k) \/ Unregister(k) \/ Dispose(k) \/ Write(k) \/ Lookup(k)
Next == Step /\ Emit
Spec == Init /\ [][Next]_vars

\* C28 on the model: what lookup answers is exactly the registered set, nothing is registered
\* on a keyless or not yet enabled writer
RegConsistent == /\ ((~keyed \/ ~enabled) => reg = {})
                 /\ reg \subseteq known
                 /\ (MaxInst > 0 => Cardinality(known) <= MaxInst)
=============================================================================
