----------------------------- MODULE MC_KeyHash -----------------------------
(* the key types of the harness (harness/src/keyhash.rs declares the same Rust types) and small value domains *)
EXTENDS KeyHash
U8 == {0, 1, 255}
U16s == {0, 1, 258, 65535}
I32s == {0, 1, -1, 16909060, -2147483647}
Strs == {<<>>, <<97>>, <<97, 98>>, <<97, 98, 99, 100>>, <<98>>, <<97, 98, 99, 100, 101, 102, 103, 104, 105, 106, 107, 108, 109, 110, 111, 112, 113>>}
Small == {0, 1}
Dom(kind, small) == CASE kind = "u8" -> IF small THEN Small ELSE U8 [] kind = "u16" -> IF small THEN Small ELSE U16s
                      [] kind = "i32" -> IF small THEN {0, -1} ELSE I32s [] kind = "str" -> Strs
Types == [T1 |-> <<"u8">>, T2 |-> <<"i32", "u16">>, T3 |-> <<"str">>, T4 |-> <<"u8", "str">>, T5 |-> <<"u16", "u8">>, T6 |-> <<"u8", "i32">>,
          T7 |-> <<"i32", "i32", "i32", "i32", "u8">>, T8 |-> <<"i32", "i32", "i32", "i32">>,
          T9 |-> <<"u16", "u16", "u16", "u16", "u16", "u16", "u16", "u16", "u8">>, T10 |-> <<"u8", "u16", "u8", "i32", "u8">>,
          \* T11: the only key member lies inside a nested struct that is not itself a key member; T12: a non-key sequence precedes the key
          T11 |-> <<"u16">>, T12 |-> <<"i32">>]
RECURSIVE Values(_, _)
Values(type, small) == IF type = <<>> THEN {<<>>} ELSE {<<h>> \o t : h \in Dom(Head(type), small), t \in Values(Tail(type), small)}

VARIABLES tn, v
Init == tn \in DOMAIN Types /\ v \in Values(Types[tn], Len(Types[tn]) > 3)
Next == UNCHANGED <<tn, v>>
Spec == Init /\ [][Next]_<<tn, v>>
Emit == PrintT(<<"CASE", ToJson([t |-> tn, v |-> v, e |-> KeyHash(Types[tn], v), max |-> MaxSize(Types[tn], 0)])>>)
Inv == /\ Len(KeyHash(Types[tn], v).bytes) >= 1
       /\ (KeyHash(Types[tn], v).mode = "pad" => Len(KeyHash(Types[tn], v).bytes) = 16)
       /\ Emit
=============================================================================
