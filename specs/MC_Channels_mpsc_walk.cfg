SPECIFICATION Spec
VIEW view
INVARIANT Inv
CHECK_DEADLOCK FALSE
CONSTANTS
  Kind = "mpsc"
  MaxSenders = 3
  MaxSends = 6
  MaxPolls = 8
  Wakers = {1, 2, 3}
