SPECIFICATION Spec
INVARIANT Emit
INVARIANT OnlyNoneWhenDisabled
CHECK_DEADLOCK FALSE
