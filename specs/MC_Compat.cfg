SPECIFICATION Spec
INVARIANT Emit
INVARIANT Sane
CHECK_DEADLOCK FALSE
