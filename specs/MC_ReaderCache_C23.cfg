\* C23: read_next_instance / take_next_instance over three instances
SPECIFICATION Spec
VIEW view
INVARIANT Inv
CHECK_DEADLOCK FALSE
CONSTANTS
  Instances = {1, 2, 3}
  Writers = {1}
  Timestamps = {1}
  Depth = 0
  MaxS = 0
  MaxI = 0
  MaxSPI = 0
  BySource = FALSE
  Exclusive = FALSE
  StrengthOf <- Strength0
  MinSep = 0
  Kinds = {"ALIVE", "DISPOSED"}
  MaxAdds = 4
  MaxAccess = 2
  AccessKinds = {"ReadNext", "TakeNext", "Take"}
  MaskChoices <- MaskSome
  MaxChoices = {0}
  UseInstArg = FALSE
  MaxUnmatch = 0
