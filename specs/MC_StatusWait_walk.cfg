SPECIFICATION Spec
VIEW view
INVARIANT NoLostWakeup
CHECK_DEADLOCK FALSE
CONSTANTS
  Statuses = {1, 2, 3}
  Waiters = {1, 2, 3}
  InitEnabled = {1, 2}
  MaxOps = 16
