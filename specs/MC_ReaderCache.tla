--------------------------- MODULE MC_ReaderCache ---------------------------
(* Model-checking instance of ReaderCache: constant definitions shared by the
   per-property configurations and the declarative invariants (stated over the
   history variable `hist', independently of how the actions are written). *)
EXTENDS ReaderCache

AllSS == {"NOT_READ", "READ"}
AllVS == {"NEW", "NOT_NEW"}
AllIS == {"ALIVE", "DISPOSED", "NO_WRITERS"}
NotAliveIS == {"DISPOSED", "NO_WRITERS"}

MaskAny == {<<AllSS, AllVS, AllIS>>}
MaskSome == {<<AllSS, AllVS, AllIS>>, <<{"NOT_READ"}, AllVS, AllIS>>, <<{"READ"}, AllVS, AllIS>>,
             <<AllSS, {"NEW"}, AllIS>>, <<AllSS, {"NOT_NEW"}, AllIS>>,
             <<AllSS, AllVS, {"ALIVE"}>>, <<AllSS, AllVS, NotAliveIS>>,
             <<{"NOT_READ"}, {"NEW"}, {"ALIVE"}>>, <<{"READ"}, {"NOT_NEW"}, NotAliveIS>>}
MaskFull == {<<s, v, i>> : s \in {AllSS, {"NOT_READ"}, {"READ"}},
                           v \in {AllVS, {"NEW"}, {"NOT_NEW"}},
                           i \in {AllIS, {"ALIVE"}, NotAliveIS, {"DISPOSED"}, {"NO_WRITERS"}}}

Strength12 == [w \in Writers |-> w]          \* distinct strengths, writer 2 stronger than 1
Strength0 == [w \in Writers |-> 0]

Recv == SelectSeq(hist, LAMBDA e : e.t = "recv")
TakenIds == UNION {hist[n].ids : n \in {m \in 1..Len(hist) : hist[m].t = "take"}}
SeqIds(s) == [n \in 1..Len(s) |-> s[n].id]
StoredOf(i) == SelectSeq(samples, LAMBDA s : s.i = i)
LastN(s, n) == IF Len(s) <= n THEN s ELSE SubSeq(s, Len(s) - n + 1, Len(s))

TypeOK ==
    /\ \A n \in 1..Len(samples) : samples[n].i \in Instances /\ samples[n].w \in Writers
                                  /\ samples[n].ss \in SS /\ inst[samples[n].i].known
    /\ \A i \in Instances : inst[i].view \in VS /\ inst[i].is \in IS
    /\ \A n, m \in 1..Len(samples) : n # m => samples[n].id # samples[m].id

\* C18: with KEEP_LAST(Depth) and data samples only, an instance holds exactly the last
\* min(Depth, n) accepted, not yet taken samples; depth alone never rejects.
InvKeepLast ==
    (Depth > 0 /\ Kinds = {"ALIVE"} /\ ~BySource /\ MinSep = 0 /\ ~Exclusive) =>
        /\ \A i \in Instances :
            LET cand == SelectSeq(Recv, LAMBDA e : e.i = i /\ e.verdict = "Added"
                                                   /\ e.id \notin TakenIds)
            IN /\ Len(StoredOf(i)) <= Depth
               /\ \A n \in 1..Len(StoredOf(i)) : \E m \in 1..Len(cand) : cand[m].id = StoredOf(i)[n].id
               /\ (Cardinality({e \in 1..Len(hist) : hist[e].t = "take"}) = 0 =>
                        SeqIds(StoredOf(i)) = SeqIds(LastN(cand, Depth)))
        /\ (MaxS = 0 /\ MaxI = 0 /\ (MaxSPI = 0 \/ MaxSPI >= Depth)) =>
                \A n \in 1..Len(Recv) : Recv[n].verdict # "Rejected"

\* C18: KEEP_ALL loses nothing except by resource limits or take.
InvKeepAll ==
    (Depth = 0 /\ MinSep = 0 /\ ~Exclusive) =>
        \A n \in 1..Len(Recv) :
            (Recv[n].verdict = "Added" /\ Recv[n].id \notin TakenIds) =>
                \E m \in 1..Len(samples) : samples[m].id = Recv[n].id

\* C19: the cache never exceeds its limits.
InvLimits ==
    /\ MaxS > 0 => DataCount <= MaxS
    /\ MaxI > 0 => Cardinality(InstancesStored) <= MaxI
    /\ MaxSPI > 0 => \A i \in Instances : Cardinality(IdxOfInst(i)) <= MaxSPI

\* C21: per instance, stored source timestamps are non-decreasing.
InvSourceOrder ==
    BySource => \A i \in Instances : \A n, m \in 1..Len(StoredOf(i)) :
                    n < m => StoredOf(i)[n].ts <= StoredOf(i)[m].ts

\* C22: generation counters only grow, a stored sample never carries a later generation than
\* its instance, a not-alive instance was made so by a stored-or-taken change.
InvLifecycle ==
    \A i \in Instances :
        /\ \A n \in 1..Len(StoredOf(i)) :
              StoredOf(i)[n].dgc <= inst[i].dgc /\ StoredOf(i)[n].nwgc <= inst[i].nwgc
        \* (inst[i].writers also holds writers heard of through filtered / rejected changes, see HeardOnly)
        /\ inst[i].is = "NO_WRITERS" => \E n \in 1..Len(Recv) : Recv[n].i = i /\ Recv[n].verdict = "Added" /\ Recv[n].kind = "UNREGISTERED"
        /\ inst[i].is = "DISPOSED" => \E n \in 1..Len(Recv) : Recv[n].i = i /\ Recv[n].verdict = "Added"
                                                              /\ Recv[n].kind \in {"DISPOSED", "DISPOSED_UNREGISTERED"}
        /\ ~inst[i].known => StoredOf(i) = <<>>

\* C24: a change was accepted only from the owner, from a stronger writer, or when the
\* instance had no (matched) owner; it was ignored only because a stronger-or-equal owner exists.
InvOwnership ==
    Exclusive =>
        \A n \in 1..Len(Recv) :
            LET e == Recv[n] IN
            /\ e.verdict = "Added" =>
                    (e.own = NoWriter \/ e.own = e.w \/ StrengthOf[e.w] > StrengthOf[e.own])
            /\ (e.verdict = "NotAdded" /\ e.kind = "ALIVE" /\ MinSep = 0) =>
                    (e.own # NoWriter /\ e.own # e.w /\ StrengthOf[e.w] <= StrengthOf[e.own])

\* C25: no two accepted data samples of an instance are closer than MinSep, and a sample at
\* least MinSep away from every accepted one is accepted.
InvTimeFilter ==
    \* C25 speaks about any two presented samples of an instance, so about changes of every kind
    MinSep > 0 =>
        /\ \A n, m \in 1..Len(Recv) :
              (n < m /\ Recv[n].i = Recv[m].i /\ Recv[n].verdict = "Added" /\ Recv[m].verdict = "Added")
              => Abs(Recv[n].ts - Recv[m].ts) >= MinSep
        /\ \A m \in 1..Len(Recv) :
              (Recv[m].verdict = "NotAdded" /\ ~Exclusive) =>
                    \/ \E n \in 1..(m - 1) : /\ Recv[n].i = Recv[m].i /\ Recv[n].verdict = "Added"
                                              /\ Abs(Recv[n].ts - Recv[m].ts) < MinSep
                    \* a dispose / unregister of an instance the reader does not know
                    \/ /\ Recv[m].kind # "ALIVE"
                       /\ ~\E n \in 1..(m - 1) : Recv[n].i = Recv[m].i /\ Recv[n].verdict = "Added"

Inv == TypeOK /\ InvKeepLast /\ InvKeepAll /\ InvLimits /\ InvSourceOrder /\ InvLifecycle
       /\ InvOwnership /\ InvTimeFilter
=============================================================================
