SPECIFICATION Spec
VIEW view
INVARIANT TreeConsistent
CHECK_DEADLOCK FALSE
CONSTANTS
  MaxPubs = 2
  MaxSubs = 0
  MaxTopics = 1
  MaxWriters = 4
  MaxCfts = 0
  MaxReaders = 0
  TopicNames = {"A"}
  MaxOps = 8
  Warm = 0
  ChurnAt = {}
