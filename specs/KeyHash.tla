------------------------------ MODULE KeyHash ------------------------------
(***************************************************************************)
(* Instance identity and the key hash (C11, C12; DDS-XTypes 7.6.8).        *)
(*                                                                         *)
(* The key of a type is the sequence of its key members in declaration     *)
(* order, the key members of nested non-key structures included (a key     *)
(* member of structure type contributes all its members).  The key hash    *)
(* is the big-endian CDR serialization of the key members, zero padded to  *)
(* 16 octets when the MAXIMUM serialized size of the key is at most 16     *)
(* octets, and the MD5 digest of that serialization otherwise.  The        *)
(* instance handle is the key hash; two samples are the same instance iff  *)
(* their key members are equal, whatever the other members hold.           *)
(*                                                                         *)
(* Member kinds: u8, u16, i32 and unbounded strings (sequences of octet    *)
(* codes).  MD5 itself is not specified here: for "md5" the specification  *)
(* gives the octets to digest.                                             *)
(***************************************************************************)
EXTENDS Integers, Sequences, FiniteSets, TLC, Json

Unbounded == 100000
Align(pos, a) == ((pos + a - 1) \div a) * a
Zeros(n) == [k \in 1..n |-> 0]
\* big endian octets
U16(v) == <<v \div 256, v % 256>>
Low31(v) == IF v >= 0 THEN v ELSE (v + 2147483647) + 1
I32(v) == LET u == Low31(v) IN <<(IF v < 0 THEN 128 ELSE 0) + (u \div 16777216), (u \div 65536) % 256, (u \div 256) % 256, u % 256>>

\* serialization of one member value at stream position pos (returns the octets including leading padding)
Member(kind, v, pos) ==
    CASE kind = "u8" -> <<v>>
      [] kind = "u16" -> Zeros(Align(pos, 2) - pos) \o U16(v)
      [] kind = "i32" -> Zeros(Align(pos, 4) - pos) \o I32(v)
      [] kind = "str" -> Zeros(Align(pos, 4) - pos) \o I32(Len(v) + 1) \o v \o <<0>>
MaxMember(kind, pos) ==
    CASE kind = "u8" -> pos + 1
      [] kind = "u16" -> Align(pos, 2) + 2
      [] kind = "i32" -> Align(pos, 4) + 4
      [] kind = "str" -> Unbounded

RECURSIVE Ser(_, _, _)
Ser(type, value, acc) == IF type = <<>> THEN acc
                         ELSE Ser(Tail(type), Tail(value), acc \o Member(Head(type), Head(value), Len(acc)))
RECURSIVE MaxSize(_, _)
MaxSize(type, pos) == IF type = <<>> THEN pos
                      ELSE LET p == MaxMember(Head(type), pos) IN IF p >= Unbounded THEN Unbounded ELSE MaxSize(Tail(type), p)

KeyHash(type, value) ==
    LET s == Ser(type, value, <<>>)
    IN IF MaxSize(type, 0) <= 16 THEN [mode |-> "pad", bytes |-> s \o Zeros(16 - Len(s))]
       ELSE [mode |-> "md5", bytes |-> s]

SameInstance(type, v1, v2) == v1 = v2
=============================================================================
