------------------------------ MODULE TimeConvA ------------------------------
(***************************************************************************)
(* TimeConv on unbounded integers, for Apalache (C14):                     *)
(*   RoundTripInv : for EVERY ns in [0, 10^9) floor(ceil(ns*2^32/10^9)     *)
(*                  * 10^9 / 2^32) = ns and the fraction fits 32 bits      *)
(*   ArithInv     : for ALL operands the saturating Add / Sub are          *)
(*                  normalized and monotone                                *)
(* The definitions are the ones of TimeConv.tla (Frac / Nanos there are    *)
(* the same functions computed with 16 bit limbs for TLC).                 *)
(***************************************************************************)
EXTENDS Integers

NS == 1000000000
TwoTo32 == 4294967296
SecMax == 2147483647
SecMin == -2147483648

VARIABLES
    \* @type: Int;
    ns,
    \* @type: Int;
    as,
    \* @type: Int;
    an,
    \* @type: Int;
    bs,
    \* @type: Int;
    bn,
    \* @type: Int;
    ds,
    \* @type: Int;
    dn

FracInt(n) == (n * TwoTo32 + (NS - 1)) \div NS
NanosInt(f) == (f * NS) \div TwoTo32

\* @type: (Int, Int) => <<Int, Int>>;
Clamp(s, n) == IF s > SecMax THEN <<SecMax, NS - 1>> ELSE IF s < SecMin THEN <<SecMin, 0>> ELSE <<s, n>>
Add(s1, n1, s2, n2) == Clamp(s1 + s2 + ((n1 + n2) \div NS), (n1 + n2) % NS)
Sub(s1, n1, s2, n2) == IF n1 < n2 THEN Clamp(s1 - s2 - 1, NS + n1 - n2) ELSE Clamp(s1 - s2, n1 - n2)
\* @type: (<<Int, Int>>, <<Int, Int>>) => Bool;
Leq(x, y) == x[1] < y[1] \/ (x[1] = y[1] /\ x[2] <= y[2])
\* @type: (<<Int, Int>>) => Bool;
Normalized(x) == x[2] >= 0 /\ x[2] < NS /\ x[1] >= SecMin /\ x[1] <= SecMax

InRange(s, n) == s \in Int /\ n \in Int /\ s >= SecMin /\ s <= SecMax /\ n >= 0 /\ n < NS

Init == /\ ns \in Int /\ ns >= 0 /\ ns < NS
        /\ as \in Int /\ an \in Int /\ bs \in Int /\ bn \in Int /\ ds \in Int /\ dn \in Int
        /\ InRange(as, an) /\ InRange(bs, bn) /\ InRange(ds, dn)
Next == UNCHANGED <<ns, as, an, bs, bn, ds, dn>>

RoundTripInv == NanosInt(FracInt(ns)) = ns /\ FracInt(ns) < TwoTo32 /\ FracInt(ns) >= 0
\* the conversion of the unfixed code (round to nearest) does NOT round trip: used as a self-test of the proof set-up
FracNearest(n) == (n * TwoTo32 + 500000000) \div NS
RoundTripNearest == NanosInt(FracNearest(ns)) = ns

ArithInv ==
    /\ Normalized(Add(as, an, ds, dn)) /\ Normalized(Sub(as, an, ds, dn))
    /\ (Leq(<<as, an>>, <<bs, bn>>) => Leq(Add(as, an, ds, dn), Add(bs, bn, ds, dn)))
    /\ (Leq(<<as, an>>, <<bs, bn>>) => Leq(Sub(as, an, ds, dn), Sub(bs, bn, ds, dn)))
    /\ (Leq(<<as, an>>, <<bs, bn>>) => Leq(Sub(ds, dn, bs, bn), Sub(ds, dn, as, an)))
=============================================================================
