SPECIFICATION Spec
INVARIANT Inv
CHECK_DEADLOCK FALSE
CONSTANTS
  Sleeps = {1, 2}
  Durations = {0, 1, 2}
  MaxTime = 4
  SpuriousPolls = TRUE
