SPECIFICATION Spec
INVARIANT Emit
INVARIANT Symmetric
CHECK_DEADLOCK FALSE
