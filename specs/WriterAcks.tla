----------------------------- MODULE WriterAcks -----------------------------
(***************************************************************************)
(* Which changes of a reliable writer count as acknowledged (the basis of  *)
(* C27: a KEEP_LAST write may only replace an acknowledged sample, and of  *)
(* C03: wait_for_acknowledgments).  One action per call of the stateful    *)
(* RTPS writer: add_change, add_matched_reader, delete_matched_reader and  *)
(* on_acknack_submessage_received.                                         *)
(*                                                                         *)
(* A change is acknowledged iff every matched RELIABLE reader has          *)
(* acknowledged it.  A reader acknowledges with an ACKNACK whose base is   *)
(* above the change - addressed to THIS writer, sent by a matched reader,  *)
(* with a count newer than the last one taken from that reader.  ACKNACKs  *)
(* addressed to another writer of the participant (every writer of a       *)
(* participant is offered every ACKNACK), from unknown readers, from       *)
(* best-effort readers or with a stale count change nothing.               *)
(***************************************************************************)
EXTENDS Integers, Sequences, FiniteSets, TLC, Json

CONSTANTS Readers,      \* reader ids that may be matched
          Stranger,     \* a reader id that is never matched
          MaxSN, MaxOps

VARIABLES last, matched, rel, acked, cnt, nOps, lastOp
vars == <<last, matched, rel, acked, cnt, nOps, lastOp>>
view == <<last, matched, rel, acked, cnt, nOps>>

Init == /\ last = 0 /\ matched = {} /\ rel = [r \in Readers |-> TRUE] /\ acked = [r \in Readers |-> 0]
        /\ cnt = [r \in Readers \cup {Stranger} |-> 0] /\ nOps = 0 /\ lastOp = [op |-> "Init"]

Max2(a, b) == IF a > b THEN a ELSE b
IsAcked(sn) == LET s == IF sn > last THEN last ELSE sn
               IN s = 0 \/ \A r \in matched : rel[r] => acked[r] >= s
Proj == [ackedflags |-> [sn \in 1..(MaxSN + 1) |-> IsAcked(sn)], aux |-> <<last, matched, rel, acked, cnt, nOps>>]

Op(name, args, res, tag) == [op |-> name, a |-> args, expect |-> [res |-> res], tag |-> tag]
Tick == nOps < MaxOps /\ nOps' = nOps + 1

Add == /\ Tick /\ last < MaxSN /\ last' = last + 1 /\ UNCHANGED <<matched, rel, acked, cnt>>
       /\ lastOp' = Op("Add", [sn |-> last + 1], "Ok", "add")

Match(r, reliable) ==
    /\ Tick /\ r \notin matched
    /\ matched' = matched \cup {r} /\ rel' = [rel EXCEPT ![r] = reliable] /\ acked' = [acked EXCEPT ![r] = 0]
    /\ cnt' = [cnt EXCEPT ![r] = 0] /\ UNCHANGED last
    /\ lastOp' = Op("Match", [r |-> r, reliable |-> reliable], "Ok", IF reliable THEN "match:reliable" ELSE "match:best-effort")

Unmatch(r) ==
    /\ Tick /\ r \in matched /\ matched' = matched \ {r} /\ UNCHANGED <<last, rel, acked, cnt>>
    /\ lastOp' = Op("Unmatch", [r |-> r], "Ok", "unmatch")

\* target: "this" writer or a "sibling" writer of the same participant; fresh: the count is newer than the last one taken
AckNack(r, target, base, fresh) ==
    /\ Tick /\ base >= 1 /\ base <= last + 1
    \* a well behaved reader never lowers its base (outside the enumerated domain)
    /\ (r \in matched => base - 1 >= acked[r])
    /\ LET count == IF fresh THEN cnt[r] + 1 ELSE cnt[r]
           taken == target = "this" /\ r \in matched /\ rel[r] /\ fresh
       IN /\ acked' = IF taken THEN [acked EXCEPT ![r] = Max2(@, base - 1)] ELSE acked
          /\ cnt' = IF taken THEN [cnt EXCEPT ![r] = count] ELSE cnt
          /\ lastOp' = Op("AckNack", [r |-> r, target |-> target, base |-> base, count |-> count],
                          IF taken THEN base - 1 ELSE -1,
                          IF taken THEN "acknack:taken"
                          ELSE IF target # "this" THEN "acknack:for-sibling-writer"
                          ELSE IF r \notin matched THEN "acknack:from-unmatched-reader"
                          ELSE IF ~rel[r] THEN "acknack:from-best-effort-reader"
                          ELSE "acknack:stale-count")
    /\ UNCHANGED <<last, matched, rel>>

Emit == PrintT(<<"EDGE", ToJson([s |-> Proj, o |-> lastOp', d |-> Proj'])>>)
Step == \/ Add
        \/ \E r \in Readers, b \in BOOLEAN : Match(r, b)
        \/ \E r \in Readers : Unmatch(r)
        \/ \E r \in Readers \cup {Stranger}, t \in {"this", "sibling"}, b \in 1..(MaxSN + 1), f \in BOOLEAN : AckNack(r, t, b, f)
Next == Step /\ Emit
Spec == Init /\ [][Next]_vars

\* nothing counts as acknowledged that a matched reliable reader has not acknowledged to this writer
Sound == \A sn \in 1..last : IsAcked(sn) => \A r \in matched : rel[r] => acked[r] >= sn
=============================================================================
