----------------------------- MODULE StatusWait -----------------------------
(***************************************************************************)
(* StatusCondition and the waiters a WaitSet registers on it               *)
(* (dcps/status_condition.rs, dds_async/wait_set.rs).  WaitSet::wait is    *)
(* four worker mails: check, register, (await), collect; they are separate *)
(* actions here so that TLC interleaves them with status changes (C32).    *)
(*   trigger  ==  some enabled status has changed since it was last read   *)
(*   a registered waiter is released as soon as trigger becomes true, by   *)
(*   a status change or by enabling a status that already changed.         *)
(***************************************************************************)
EXTENDS Integers, Sequences, FiniteSets, TLC, Json

CONSTANTS Statuses, Waiters, InitEnabled, MaxOps

VARIABLES changed,    \* statuses changed since last read
          enabled,    \* enabled statuses
          pc,         \* waiter -> "idle" | "registered" | "released"
          nOps, lastOp
vars == <<changed, enabled, pc, nOps, lastOp>>
view == <<changed, enabled, pc, nOps>>

Trigger(c, e) == c \cap e # {}
Init == changed = {} /\ enabled = InitEnabled /\ pc = [w \in Waiters |-> "idle"] /\ nOps = 0 /\ lastOp = [op |-> "Init"]
Proj == [trigger |-> Trigger(changed, enabled), pc |-> pc, aux |-> <<changed, enabled, nOps>>]

\* all registered waiters are released when the trigger value is (or becomes) true
Release(c, e) == [w \in Waiters |-> IF pc[w] = "registered" /\ Trigger(c, e) THEN "released" ELSE pc[w]]

Raise(s) ==
    /\ nOps < MaxOps /\ nOps' = nOps + 1
    /\ changed' = changed \cup {s} /\ UNCHANGED enabled
    /\ pc' = Release(changed', enabled)
    /\ lastOp' = [op |-> "Raise", s |-> s, expect |-> [res |-> "Ok", trigger |-> Trigger(changed', enabled)], tag |-> "raise"]
Read(s) ==
    /\ nOps < MaxOps /\ nOps' = nOps + 1
    /\ changed' = changed \ {s} /\ UNCHANGED <<enabled, pc>>
    /\ lastOp' = [op |-> "Read", s |-> s, expect |-> [res |-> "Ok", trigger |-> Trigger(changed', enabled)], tag |-> "read"]
SetEnabled(m) ==
    /\ nOps < MaxOps /\ nOps' = nOps + 1
    /\ enabled' = m /\ UNCHANGED changed
    /\ pc' = Release(changed, m)
    /\ lastOp' = [op |-> "SetEnabled", m |-> m, expect |-> [res |-> "Ok", trigger |-> Trigger(changed, m)],
                  tag |-> IF ~Trigger(changed, enabled) /\ Trigger(changed, m) /\ \E w \in Waiters : pc[w] = "registered"
                          THEN "setenabled:releases-registered-waiter" ELSE "setenabled"]
Register(w) ==
    /\ nOps < MaxOps /\ nOps' = nOps + 1
    /\ pc[w] = "idle"
    /\ pc' = [pc EXCEPT ![w] = IF Trigger(changed, enabled) THEN "released" ELSE "registered"]
    /\ UNCHANGED <<changed, enabled>>
    /\ lastOp' = [op |-> "Register", w |-> w, expect |-> [res |-> "Ok", trigger |-> Trigger(changed, enabled)], tag |-> "register"]
Await(w) ==
    /\ nOps < MaxOps /\ nOps' = nOps + 1
    /\ pc[w] # "idle"
    /\ pc' = [pc EXCEPT ![w] = IF pc[w] = "released" THEN "idle" ELSE pc[w]]
    /\ UNCHANGED <<changed, enabled>>
    /\ lastOp' = [op |-> "Await", w |-> w, expect |-> [res |-> IF pc[w] = "released" THEN "released" ELSE "waiting"],
                  tag |-> IF pc[w] = "released" THEN "await:released" ELSE "await:waiting"]

Emit == PrintT(<<"EDGE", ToJson([s |-> Proj, o |-> lastOp', d |-> Proj'])>>)
Step == \/ \E s \in Statuses : Raise(s) \/ Read(s)
        \/ \E m \in SUBSET Statuses : SetEnabled(m)
        \/ \E w \in Waiters : Register(w) \/ Await(w)
Next == Step /\ Emit
Spec == Init /\ [][Next]_vars

\* C32: no lost wake-up: a waiter is never left registered while the condition is triggered
NoLostWakeup == \A w \in Waiters : pc[w] = "registered" => ~Trigger(changed, enabled)
=============================================================================
