----------------------------- MODULE MC_Compat -----------------------------
(* Enumerates the RxO table: every pair of policy groups takes all its values, the others keep
   their defaults; every case is printed with the specification's verdict (Binding A oracle). *)
EXTENDS Compat
VARIABLE q
Init == \E g1, g2 \in Groups : \E v1 \in Values(g1), v2 \in Values(g2) :
            q = [g \in Groups |-> IF g = g1 THEN v1 ELSE IF g = g2 THEN v2 ELSE Default(g)]
Next == UNCHANGED q
Spec == Init /\ [][Next]_q
Emit == PrintT(<<"CASE", ToJson([q |-> q, inc |-> Incompatible(q)])>>)
\* sanity: compatibility is reflexive on equal offered/requested kinds for symmetric policies
Sane == (q["ownership"].o = q["ownership"].r) => "ownership" \notin Incompatible(q)
=============================================================================
