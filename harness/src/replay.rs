//! Binding A: replay of every transition of a TLC state graph against the real object.
//!
//! Input: an ndjson file, first line `{"init":<id>,"nstates":N}`, then one line per transition
//! `{"s":<src id>,"d":<dst id>,"o":{op.., "expect":{..}, "tag":".."},"ds":{projected dst state}}`.
//! For every state reached through agreeing transitions only, every outgoing transition is
//! executed on a fresh object after replaying the BFS path to the source state; the real
//! result is compared with `o.expect` and the projected real state with `ds`.
use serde_json::{Value, json};
use std::collections::{HashMap, VecDeque};
use std::io::{BufRead, BufReader};
use std::panic::{AssertUnwindSafe, catch_unwind};

pub trait Model {
    /// Execute one operation on the real object, return the observed result (same shape as expect).
    fn apply(&mut self, op: &Value) -> Value;
    /// Projection of the real state, same shape as the spec's projection (without `aux`).
    fn project(&self) -> Value;
    /// Compare expected result with observed result; None = agree.
    fn compare_result(&self, op: &Value, got: &Value) -> Option<String> {
        compare(&op["expect"], got, "expect")
    }
    /// Compare expected destination state with the projection; None = agree.
    fn compare_state(&self, expected: &Value, got: &Value) -> Option<String> {
        compare(expected, got, "state")
    }
}

/// Generic structural comparison. Every key of `exp` must be present and equal in `got`
/// (extra keys in `got` are ignored). `{"anyOf":[..]}` in `exp` accepts any listed value.
pub fn compare(exp: &Value, got: &Value, path: &str) -> Option<String> {
    match exp {
        Value::Object(m) => {
            if let Some(Value::Array(alts)) = m.get("anyOf") {
                if alts.iter().any(|a| compare(a, got, path).is_none()) {
                    return None;
                }
                return Some(format!("{path}: expected one of {exp}, got {got}"));
            }
            for (k, v) in m {
                if k == "aux" {
                    continue;
                }
                let g = got.get(k).unwrap_or(&Value::Null);
                if let Some(d) = compare(v, g, &format!("{path}.{k}")) {
                    return Some(d);
                }
            }
            None
        }
        Value::Array(a) => {
            let Some(g) = got.as_array() else {
                return Some(format!("{path}: expected array {exp}, got {got}"));
            };
            if a.len() != g.len() {
                return Some(format!(
                    "{path}: expected {} elements, got {}: expected {exp}, got {got}",
                    a.len(),
                    g.len()
                ));
            }
            for (n, (x, y)) in a.iter().zip(g.iter()).enumerate() {
                if let Some(d) = compare(x, y, &format!("{path}[{n}]")) {
                    return Some(d);
                }
            }
            None
        }
        _ => {
            if exp == got {
                None
            } else {
                Some(format!("{path}: expected {exp}, got {got}"))
            }
        }
    }
}

struct Edge {
    s: usize,
    d: usize,
    o: Value,
    ds: Value,
}

pub struct ReplayReport {
    pub json: Value,
}

/// `make` builds a fresh object under test.
pub fn replay_graph<M: Model>(edges_path: &str, make: &dyn Fn() -> M, max_div_per_tag: usize) -> ReplayReport {
    let f = std::fs::File::open(edges_path).expect("edges file");
    let mut lines = BufReader::new(f).lines();
    let header: Value = serde_json::from_str(&lines.next().expect("header").unwrap()).unwrap();
    let init = header["init"].as_u64().unwrap() as usize;
    let nstates = header["nstates"].as_u64().unwrap() as usize;
    let mut edges: Vec<Edge> = Vec::new();
    let mut out: Vec<Vec<usize>> = vec![Vec::new(); nstates];
    for l in lines {
        let l = l.unwrap();
        if l.is_empty() {
            continue;
        }
        let v: Value = serde_json::from_str(&l).unwrap();
        let e = Edge {
            s: v["s"].as_u64().unwrap() as usize,
            d: v["d"].as_u64().unwrap() as usize,
            o: v["o"].clone(),
            ds: v["ds"].clone(),
        };
        out[e.s].push(edges.len());
        edges.push(e);
    }
    // Every state is reached through ONE representative path (the first one the search finds).  A hidden divergence that an
    // earlier operation left behind is only seen if that operation lies on the representative path, so the order in which the
    // outgoing edges are tried can be permuted (VH_SHUFFLE = n > 0): other runs use other representatives.
    let shuffle: u64 = std::env::var("VH_SHUFFLE").ok().and_then(|v| v.parse().ok()).unwrap_or(0);
    if shuffle > 0 {
        let mut x: u64 = 0x9E3779B97F4A7C15u64.wrapping_mul(shuffle + 1);
        for l in out.iter_mut() {
            for i in (1..l.len()).rev() {
                x = x.wrapping_mul(6364136223846793005).wrapping_add(1442695040888963407);
                let j = ((x >> 33) as usize) % (i + 1);
                l.swap(i, j);
            }
        }
    }
    // BFS over agreeing edges
    let mut parent: Vec<Option<usize>> = vec![None; nstates];
    let mut visited = vec![false; nstates];
    visited[init] = true;
    let mut queue = VecDeque::new();
    queue.push_back(init);
    let mut replayed = 0usize;
    let mut ops_executed = 0usize;
    let mut tested = vec![false; edges.len()];
    let mut divergences: Vec<Value> = Vec::new();
    let mut div_by_tag: HashMap<String, usize> = HashMap::new();
    let mut div_by_sig: HashMap<String, usize> = HashMap::new();
    let mut bad_edges: Vec<usize> = Vec::new();
    let mut tag_counts: HashMap<String, usize> = HashMap::new();
    let mut op_counts: HashMap<String, usize> = HashMap::new();
    let hook = std::panic::take_hook();
    std::panic::set_hook(Box::new(|_| {}));
    while let Some(u) = queue.pop_front() {
        // path to u
        let mut path: Vec<usize> = Vec::new();
        let mut x = u;
        while let Some(pe) = parent[x] {
            path.push(pe);
            x = edges[pe].s;
        }
        path.reverse();
        for &ei in &out[u] {
            tested[ei] = true;
            let e = &edges[ei];
            let tag = e.o["tag"].as_str().unwrap_or("").to_string();
            *tag_counts.entry(tag.clone()).or_insert(0) += 1;
            *op_counts
                .entry(e.o["op"].as_str().unwrap_or("").to_string())
                .or_insert(0) += 1;
            let res = catch_unwind(AssertUnwindSafe(|| {
                let mut m = make();
                for &pe in &path {
                    let _ = m.apply(&edges[pe].o);
                }
                let got = m.apply(&e.o);
                let r = m.compare_result(&e.o, &got);
                let proj = m.project();
                let s = m.compare_state(&e.ds, &proj);
                (got, r, proj, s)
            }));
            ops_executed += path.len() + 1;
            replayed += 1;
            let (kind, detail, got, proj) = match res {
                Ok((_, None, _, None)) => {
                    if !visited[e.d] {
                        visited[e.d] = true;
                        parent[e.d] = Some(ei);
                        queue.push_back(e.d);
                    }
                    continue;
                }
                Ok((got, Some(r), proj, _)) => ("result", r, got, proj),
                Ok((got, None, proj, Some(s))) => ("state", s, got, proj),
                Err(p) => {
                    let msg = if let Some(s) = p.downcast_ref::<String>() {
                        s.clone()
                    } else if let Some(s) = p.downcast_ref::<&str>() {
                        s.to_string()
                    } else {
                        "panic".to_string()
                    };
                    ("panic", msg, Value::Null, Value::Null)
                }
            };
            bad_edges.push(ei);
            *div_by_tag.entry(tag.clone()).or_insert(0) += 1;
            // details are kept per (tag, kind, field): a recorded finding under a tag must not use up the room of a different
            // divergence under the same tag
            let field: String = detail.split(':').next().unwrap_or("").chars().filter(|ch| !ch.is_ascii_digit()).collect();
            let c = div_by_sig.entry(format!("{tag}|{kind}|{field}")).or_insert(0);
            *c += 1;
            if *c <= max_div_per_tag {
                let ops: Vec<Value> = path
                    .iter()
                    .map(|&pe| edges[pe].o.clone())
                    .chain(std::iter::once({
                        let mut last = e.o.clone();
                        last["ds"] = e.ds.clone();
                        last
                    }))
                    .collect();
                divergences.push(json!({
                    "tag": tag, "kind": kind, "detail": detail, "ops": ops,
                    "got": got, "expected_state": e.ds, "got_state": proj,
                }));
            }
        }
    }
    // Random walks through the agreeing part of the graph (VH_WALKS = n): the search above reaches every state through one
    // representative path only; a walk executes a whole random behaviour of the specification on one object and compares
    // after every step, so an effect that an earlier operation left behind in the real object without showing in the
    // projection (a failed call that was not without effect, say) is met by the later operations of the same walk.
    let walks: usize = std::env::var("VH_WALKS").ok().and_then(|v| v.parse().ok()).unwrap_or(0);
    let mut walk_steps = 0usize;
    if walks > 0 {
        let bad: std::collections::HashSet<usize> = bad_edges.iter().cloned().collect();
        let mut x: u64 = 0xD1B54A32D192ED03u64.wrapping_mul(shuffle + 7);
        for _ in 0..walks {
            let mut taken: Vec<usize> = Vec::new();
            let mut u = init;
            // choose the walk first (the graph decides), then execute it
            loop {
                let cand: Vec<usize> = out[u].iter().cloned().filter(|e| !bad.contains(e)).collect();
                if cand.is_empty() || taken.len() >= 64 {
                    break;
                }
                x = x.wrapping_mul(6364136223846793005).wrapping_add(1442695040888963407);
                let ei = cand[((x >> 33) as usize) % cand.len()];
                taken.push(ei);
                u = edges[ei].d;
            }
            let res = catch_unwind(AssertUnwindSafe(|| {
                let mut m = make();
                for (n, &ei) in taken.iter().enumerate() {
                    let e = &edges[ei];
                    let got = m.apply(&e.o);
                    if let Some(r) = m.compare_result(&e.o, &got) {
                        return Some((n, "result", r, got, m.project()));
                    }
                    let proj = m.project();
                    if let Some(s) = m.compare_state(&e.ds, &proj) {
                        return Some((n, "state", s, got, proj));
                    }
                }
                None
            }));
            walk_steps += taken.len();
            let (n, kind, detail, got, proj) = match res {
                Ok(None) => continue,
                Ok(Some(d)) => d,
                Err(p) => {
                    let msg = p.downcast_ref::<String>().cloned().or_else(|| p.downcast_ref::<&str>().map(|s| s.to_string())).unwrap_or("panic".to_string());
                    (taken.len().saturating_sub(1), "panic", msg, Value::Null, Value::Null)
                }
            };
            let e = &edges[taken[n]];
            let tag = e.o["tag"].as_str().unwrap_or("").to_string();
            *div_by_tag.entry(tag.clone()).or_insert(0) += 1;
            let field: String = detail.split(':').next().unwrap_or("").chars().filter(|ch| !ch.is_ascii_digit()).collect();
            let c = div_by_sig.entry(format!("{tag}|{kind}|{field}")).or_insert(0);
            *c += 1;
            if *c <= max_div_per_tag {
                let ops: Vec<Value> = taken[..=n].iter().enumerate().map(|(k, &pe)| {
                    let mut o = edges[pe].o.clone();
                    if k == n { o["ds"] = e.ds.clone(); }
                    o
                }).collect();
                divergences.push(json!({
                    "tag": tag, "kind": kind, "detail": detail, "ops": ops, "walk": true,
                    "got": got, "expected_state": e.ds, "got_state": proj,
                }));
            }
        }
    }
    std::panic::set_hook(hook);
    let masked = tested.iter().filter(|t| !**t).count();
    ReplayReport {
        json: json!({
            "edges_total": edges.len(),
            "edges_replayed": replayed,
            "edges_masked": masked,
            "states_total": nstates,
            "states_reached": visited.iter().filter(|v| **v).count(),
            "ops_executed": ops_executed + walk_steps,
            "walks": walks, "walk_steps": walk_steps,
            "divergent_edges_by_tag": div_by_tag,
            "tag_counts": tag_counts,
            "op_counts": op_counts,
            "divergences": divergences,
        }),
    }
}

/// Replay one explicit op list (a replay artefact) and report the first divergence.
pub fn replay_ops<M: Model>(ops: &[Value], make: &dyn Fn() -> M) -> Value {
    let res = catch_unwind(AssertUnwindSafe(|| {
        let mut m = make();
        for (n, o) in ops.iter().enumerate() {
            let got = m.apply(o);
            if let Some(r) = m.compare_result(o, &got) {
                return json!({"diverged": true, "at": n, "kind": "result", "detail": r, "got": got});
            }
            if let Some(ds) = o.get("ds") {
                if let Some(s) = m.compare_state(ds, &m.project()) {
                    return json!({"diverged": true, "at": n, "kind": "state", "detail": s, "got_state": m.project()});
                }
            }
        }
        json!({"diverged": false, "state": m.project()})
    }));
    match res {
        Ok(v) => v,
        Err(_) => json!({"diverged": true, "kind": "panic"}),
    }
}
