//! TimeConv.tla cases evaluated on the real conversions and arithmetic (C14).
use dust_dds::infrastructure::time::{Duration, Time};
use dust_dds::rtps::behavior_types::Duration as RtpsDuration;
use dust_dds::rtps_messages::types::Time as WireTime;
use dust_dds::transport::types::Time as TransportTime;
use serde_json::{Value, json};
use std::collections::BTreeMap;

struct Rep {
    distinct: BTreeMap<String, Value>,
    evaluated: u64,
    panics: u64,
}
impl Rep {
    fn diverge(&mut self, sig: String, case: &Value, expected: Value, got: Value) {
        self.distinct.entry(sig.clone()).or_insert_with(|| json!({"sig": sig, "case": case, "expected": expected, "got": got}));
    }
}

fn t(v: &Value) -> (i32, u32) {
    (v["sec"].as_i64().unwrap() as i32, v["ns"].as_i64().unwrap() as u32)
}
fn tj(sec: i32, ns: u32) -> Value {
    json!({"sec": sec, "ns": ns})
}
fn guard<T>(f: impl FnOnce() -> T + std::panic::UnwindSafe) -> Result<T, String> {
    std::panic::catch_unwind(f).map_err(|e| {
        e.downcast_ref::<String>().cloned().or_else(|| e.downcast_ref::<&str>().map(|s| s.to_string())).unwrap_or_else(|| "panic".into())
    })
}

/// the four conversion paths of a (sec, ns) pair to the wire and back: (name, fraction, back)
fn paths(sec: i32, ns: u32) -> Vec<(&'static str, Result<(u32, (i32, u32)), String>)> {
    vec![
        ("duration-rtps_duration", guard(move || {
            let w = RtpsDuration::from(Duration::new(sec, ns));
            let b = Duration::from(w);
            (w.fraction(), (b.sec(), b.nanosec()))
        })),
        ("duration-wire_time", guard(move || {
            let w = WireTime::from(Duration::new(sec, ns));
            let b = Duration::from(w);
            (w.fraction(), (b.sec(), b.nanosec()))
        })),
        ("time-transport-wire_time", guard(move || {
            let tt = TransportTime::from(Time::new(sec, ns));
            let w = WireTime::from(tt);
            let back = Time::from(TransportTime::from(w));
            (w.fraction(), (back.sec(), back.nanosec()))
        })),
    ]
}

pub fn run_cases(path: &str, exhaustive: bool) -> Value {
    let mut rep = Rep { distinct: BTreeMap::new(), evaluated: 0, panics: 0 };
    let mut kinds: BTreeMap<String, u64> = BTreeMap::new();
    let text = std::fs::read_to_string(path).expect("cases file");
    std::panic::set_hook(Box::new(|_| {}));
    for line in text.lines() {
        if line.trim().is_empty() {
            continue;
        }
        let c: Value = serde_json::from_str(line).expect("case json");
        let kind = c["kind"].as_str().unwrap().to_string();
        *kinds.entry(kind.clone()).or_insert(0) += 1;
        rep.evaluated += 1;
        let (asec, ans) = t(&c["a"]);
        let (bsec, bns) = t(&c["b"]);
        match kind.as_str() {
            "conv" => {
                let want_frac = (c["e"]["frac"]["hi"].as_u64().unwrap() << 16) + c["e"]["frac"]["lo"].as_u64().unwrap();
                let want_back = t(&c["e"]["back"]);
                for (name, r) in paths(asec, ans) {
                    match r {
                        Err(p) => {
                            rep.panics += 1;
                            rep.diverge(format!("TimeConv:conv:{name}:panic"), &c, json!("no panic"), json!(p));
                        }
                        Ok((frac, back)) => {
                            if frac as u64 != want_frac {
                                rep.diverge(format!("TimeConv:conv:{name}:fraction"), &c, json!(want_frac), json!(frac));
                            }
                            if back != want_back {
                                rep.diverge(format!("TimeConv:conv:{name}:round-trip"), &c, tj(want_back.0, want_back.1), tj(back.0, back.1));
                            }
                        }
                    }
                }
            }
            "add" | "sub" => {
                let want = t(&c["e"]["r"]);
                let rs: Vec<(&str, Result<(i32, u32), String>)> = if kind == "add" {
                    vec![
                        ("time+duration", guard(move || { let r = Time::new(asec, ans) + Duration::new(bsec, bns); (r.sec(), r.nanosec()) })),
                        ("duration+duration", guard(move || { let r = Duration::new(asec, ans) + Duration::new(bsec, bns); (r.sec(), r.nanosec()) })),
                        ("time+=duration", guard(move || { let mut r = Time::new(asec, ans); r += Duration::new(bsec, bns); (r.sec(), r.nanosec()) })),
                    ]
                } else {
                    vec![
                        ("time-time", guard(move || { let r = Time::new(asec, ans) - Time::new(bsec, bns); (r.sec(), r.nanosec()) })),
                        ("duration-duration", guard(move || { let r = Duration::new(asec, ans) - Duration::new(bsec, bns); (r.sec(), r.nanosec()) })),
                    ]
                };
                for (name, r) in rs {
                    match r {
                        Err(p) => {
                            rep.panics += 1;
                            rep.diverge(format!("TimeConv:{kind}:{name}:panic"), &c, json!("no panic"), json!(p));
                        }
                        Ok(got) => {
                            if got != want {
                                let class = if want == (i32::MAX, 999_999_999) || want == (i32::MIN, 0) { "saturated" } else { "in-range" };
                                rep.diverge(format!("TimeConv:{kind}:{name}:{class}"), &c, tj(want.0, want.1), tj(got.0, got.1));
                            }
                        }
                    }
                }
            }
            "new" => {
                let want = t(&c["e"]["r"]);
                let rs: Vec<(&str, Result<(i32, u32), String>)> = vec![
                    ("Time::new", guard(move || { let r = Time::new(asec, ans); (r.sec(), r.nanosec()) })),
                    ("Duration::new", guard(move || { let r = Duration::new(asec, ans); (r.sec(), r.nanosec()) })),
                ];
                for (name, r) in rs {
                    match r {
                        Err(p) => {
                            rep.panics += 1;
                            rep.diverge(format!("TimeConv:new:{name}:panic"), &c, json!("no panic"), json!(p));
                        }
                        Ok(got) => {
                            if got != want {
                                let class = if want == (i32::MAX, 999_999_999) || want == (i32::MIN, 0) { "saturated" } else { "in-range" };
                                rep.diverge(format!("TimeConv:new:{name}:{class}"), &c, tj(want.0, want.1), tj(got.0, got.1));
                            }
                        }
                    }
                }
            }
            other => panic!("unknown case kind {other}"),
        }
    }
    // every nanosecond value: fraction = ceil(ns * 2^32 / 10^9) (TimeConv!Frac) and the way back returns ns
    let mut exhaustive_n = 0u64;
    if exhaustive {
        let step = 1u32;
        let mut ns = 0u32;
        while ns < 1_000_000_000 {
            let want = (((ns as u64) << 32) + 999_999_999) / 1_000_000_000;
            let w1 = RtpsDuration::from(Duration::new(7, ns));
            let b1 = Duration::from(w1);
            let w2 = WireTime::from(TransportTime::new(7, ns));
            let b2 = TransportTime::from(w2);
            if w1.fraction() as u64 != want || w2.fraction() as u64 != want {
                rep.diverge("TimeConv:conv:exhaustive:fraction".into(), &json!({"ns": ns}), json!(want), json!([w1.fraction(), w2.fraction()]));
            }
            if b1.nanosec() != ns || b2.nanosec() != ns || b1.sec() != 7 || b2.sec() != 7 {
                rep.diverge("TimeConv:conv:exhaustive:round-trip".into(), &json!({"ns": ns}), json!(ns), json!([b1.nanosec(), b2.nanosec()]));
            }
            exhaustive_n += 1;
            ns += step;
        }
    }
    json!({"evaluated": rep.evaluated, "kinds": kinds, "panics": rep.panics, "exhaustive_ns_values": exhaustive_n,
           "distinct": rep.distinct.values().collect::<Vec<_>>()})
}
