//! WriterInst.tla bound to a real DataWriter through the async API in the simulation (C28).
use crate::replay::Model;
use crate::scen::{KeyedData, err_name, global};
use dust_dds::dds_async::{data_writer::DataWriterAsync, domain_participant::DomainParticipantAsync};
use dust_dds::infrastructure::{
    error::DdsError,
    instance::InstanceHandle,
    listener::NO_LISTENER,
    qos::{PublisherQos, QosKind},
    qos_policy::EntityFactoryQosPolicy,
    status::NO_STATUS,
    type_support::DdsType,
};
use serde_json::{Value, json};

#[derive(DdsType, Debug, Clone, PartialEq)]
pub struct NoKeyData {
    pub id: u8,
    pub seq: u32,
}

enum W {
    None,
    Keyed(DataWriterAsync<KeyedData>),
    Keyless(DataWriterAsync<NoKeyData>),
}

pub struct WInstModel {
    p: Option<DomainParticipantAsync>,
    w: W,
    keys: u64,
    enabled: bool,
    seq: u32,
    max_inst: i64,
}

fn run<T>(f: impl std::future::Future<Output = T>) -> T {
    match global().sim.run(f, 2_000_000, 3600 * crate::sim::NS) {
        Ok(v) => v,
        Err(e) => panic!("simulation stalled: {e:?}"),
    }
}

/// handle of key k as the specification defines it: the big-endian key padded to 16 bytes
fn handle_of(k: u64) -> [u8; 16] {
    let mut h = [0u8; 16];
    h[0] = k as u8;
    h
}
/// 0 = no handle, k = the handle of key k, -1 = some other handle
fn handle_name(h: Option<InstanceHandle>, keys: u64) -> i64 {
    match h {
        None => 0,
        Some(h) => {
            let b: [u8; 16] = h.into();
            (1..=keys).find(|k| handle_of(*k) == b).map(|k| k as i64).unwrap_or(-1)
        }
    }
}

impl WInstModel {
    pub fn new(cfg: &Value) -> Self {
        let keys = cfg["Keys"].as_array().map(|a| a.len() as u64).unwrap_or(3);
        let p = run(async {
            global().factory.create_participant(0, QosKind::Default, NO_LISTENER, NO_STATUS).await.expect("participant")
        });
        let max_inst = cfg["MaxInst"].as_i64().unwrap_or(0);
        WInstModel { p: Some(p), w: W::None, keys, enabled: false, seq: 0, max_inst }
    }
    fn kd(&mut self, k: u64) -> KeyedData {
        self.seq += 1;
        KeyedData { id: k as u8, w: 1, seq: self.seq, data: vec![1, 2, 3] }
    }
    fn nk(&mut self, k: u64) -> NoKeyData {
        self.seq += 1;
        NoKeyData { id: k as u8, seq: self.seq }
    }
}

impl Drop for WInstModel {
    fn drop(&mut self) {
        if let Some(p) = self.p.take() {
            let _ = std::panic::catch_unwind(std::panic::AssertUnwindSafe(|| {
                run(async {
                    let _ = p.delete_contained_entities().await;
                    let _ = global().factory.delete_participant(&p).await;
                })
            }));
        }
    }
}

fn unit(r: Result<(), DdsError>) -> Value {
    match r {
        Ok(()) => json!({"res": "Ok"}),
        Err(e) => json!({"res": err_name(&e)}),
    }
}
fn opt(r: Result<Option<InstanceHandle>, DdsError>, keys: u64) -> Value {
    match r {
        Ok(h) => json!({"res": "Ok", "handle": handle_name(h, keys)}),
        Err(e) => json!({"res": err_name(&e)}),
    }
}

impl Model for WInstModel {
    fn apply(&mut self, op: &Value) -> Value {
        let a = &op["a"];
        let k = a["k"].as_u64().unwrap_or(0);
        let keys = self.keys;
        let p = self.p.clone().unwrap();
        match op["op"].as_str().unwrap() {
            "Create" => {
                let keyed = a["keyed"].as_bool().unwrap();
                let enabled = a["enabled"].as_bool().unwrap();
                let qos = PublisherQos {
                    entity_factory: EntityFactoryQosPolicy { autoenable_created_entities: enabled },
                    ..Default::default()
                };
                self.enabled = enabled;
                let mut wq = dust_dds::infrastructure::qos::DataWriterQos::default();
                if self.max_inst > 0 {
                    wq.resource_limits.max_instances = dust_dds::infrastructure::qos_policy::Length::Limited(self.max_inst as i32);
                }
                let r: Result<W, DdsError> = run(async {
                    let pb = p.create_publisher(QosKind::Specific(qos), NO_LISTENER, NO_STATUS).await?;
                    if keyed {
                        let t = p.create_topic::<KeyedData>("WI", "KeyedData", QosKind::Default, NO_LISTENER, NO_STATUS).await?;
                        Ok(W::Keyed(pb.create_datawriter::<KeyedData>(&t, QosKind::Specific(wq), NO_LISTENER, NO_STATUS).await?))
                    } else {
                        let t = p.create_topic::<NoKeyData>("WI", "NoKeyData", QosKind::Default, NO_LISTENER, NO_STATUS).await?;
                        Ok(W::Keyless(pb.create_datawriter::<NoKeyData>(&t, QosKind::Specific(wq), NO_LISTENER, NO_STATUS).await?))
                    }
                });
                match r {
                    Ok(w) => {
                        self.w = w;
                        json!({"res": "Ok"})
                    }
                    Err(e) => json!({"res": err_name(&e)}),
                }
            }
            "Enable" => {
                let r = match &self.w {
                    W::Keyed(w) => run(w.enable()),
                    W::Keyless(w) => run(w.enable()),
                    W::None => panic!("no writer"),
                };
                if r.is_ok() {
                    self.enabled = true;
                }
                unit(r)
            }
            "Register" => match &self.w {
                W::Keyed(w) => { let w = w.clone(); let d = self.kd(k); opt(run(w.register_instance(d)), keys) }
                W::Keyless(w) => { let w = w.clone(); let d = self.nk(k); opt(run(w.register_instance(d)), keys) }
                W::None => panic!("no writer"),
            },
            "Unregister" => match &self.w {
                W::Keyed(w) => { let w = w.clone(); let d = self.kd(k); unit(run(w.unregister_instance(d, None))) }
                W::Keyless(w) => { let w = w.clone(); let d = self.nk(k); unit(run(w.unregister_instance(d, None))) }
                W::None => panic!("no writer"),
            },
            "Dispose" => match &self.w {
                W::Keyed(w) => { let w = w.clone(); let d = self.kd(k); unit(run(w.dispose(d, None))) }
                W::Keyless(w) => { let w = w.clone(); let d = self.nk(k); unit(run(w.dispose(d, None))) }
                W::None => panic!("no writer"),
            },
            "Write" => match &self.w {
                W::Keyed(w) => { let w = w.clone(); let d = self.kd(k); unit(run(w.write(d, None))) }
                W::Keyless(w) => { let w = w.clone(); let d = self.nk(k); unit(run(w.write(d, None))) }
                W::None => panic!("no writer"),
            },
            "Lookup" => match &self.w {
                W::Keyed(w) => { let w = w.clone(); let d = self.kd(k); opt(run(w.lookup_instance(d)), keys) }
                W::Keyless(w) => { let w = w.clone(); let d = self.nk(k); opt(run(w.lookup_instance(d)), keys) }
                W::None => panic!("no writer"),
            },
            other => panic!("unknown op {other}"),
        }
    }

    fn project(&self) -> Value {
        let (created, keyed) = match &self.w {
            W::None => (false, false),
            W::Keyed(_) => (true, true),
            W::Keyless(_) => (true, false),
        };
        let lookup: Vec<String> = (1..=self.keys)
            .map(|k| match &self.w {
                W::Keyed(w) => {
                    let d = KeyedData { id: k as u8, w: 1, seq: 0, data: vec![] };
                    match run(w.lookup_instance(d)) {
                        Ok(None) => "None".to_string(),
                        Ok(Some(h)) => {
                            if handle_name(Some(h), self.keys) == k as i64 { "Some".to_string() } else { "Some(wrong handle)".to_string() }
                        }
                        Err(e) => err_name(&e),
                    }
                }
                _ => "n/a".to_string(),
            })
            .collect();
        json!({"created": created, "keyed": keyed, "enabled": self.enabled, "lookup": lookup})
    }
}
