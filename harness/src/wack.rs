//! WriterAcks.tla bound to the real RtpsStatefulWriter (C27 / C03: which changes count as acknowledged).
use crate::replay::Model;
use dust_dds::rtps::stateful_writer::RtpsStatefulWriter;
use dust_dds::rtps_messages::{submessage_elements::SequenceNumberSet, submessages::ack_nack::AckNackSubmessage};
use dust_dds::runtime::Clock;
use dust_dds::infrastructure::time::Time;
use dust_dds::transport::interface::WriteMessage;
use dust_dds::transport::types::{
    CacheChange, ChangeKind, DurabilityKind, ENTITYID_UNKNOWN, EntityId, Guid, Locator, ReaderProxy, ReliabilityKind,
    USER_DEFINED_READER_NO_KEY, USER_DEFINED_WRITER_NO_KEY,
};
use serde_json::{Value, json};

struct FixedClock;
impl Clock for FixedClock {
    fn now(&self) -> Time {
        Time::new(10, 0)
    }
}
struct NullWriter;
impl WriteMessage for NullWriter {
    fn write_message(&self, _datagram: &[u8], _locator_list: &[Locator]) {}
}

pub struct WAckModel {
    w: RtpsStatefulWriter,
    max_sn: i64,
}
const PREFIX: [u8; 12] = [1; 12];
fn this_writer() -> EntityId { EntityId::new([0, 1, 0], USER_DEFINED_WRITER_NO_KEY) }
fn sibling_writer() -> EntityId { EntityId::new([0, 0, 0], USER_DEFINED_WRITER_NO_KEY) }
/// all readers belong to one remote participant (one prefix), as the readers of one subscriber do
fn reader_prefix() -> [u8; 12] { [2; 12] }
fn reader_id(r: u64) -> EntityId { EntityId::new([0, 0, r as u8], USER_DEFINED_READER_NO_KEY) }

impl WAckModel {
    pub fn new(cfg: &Value) -> Self {
        WAckModel { w: RtpsStatefulWriter::new(Guid::new(PREFIX, this_writer()), 1000), max_sn: cfg["MaxSN"].as_i64().unwrap_or(2) }
    }
}

impl Model for WAckModel {
    fn apply(&mut self, op: &Value) -> Value {
        let a = &op["a"];
        match op["op"].as_str().unwrap() {
            "Add" => {
                let sn = a["sn"].as_i64().unwrap();
                self.w.add_change(
                    CacheChange { kind: ChangeKind::Alive, writer_guid: Guid::new(PREFIX, this_writer()), sequence_number: sn, source_timestamp: None,
                                  instance_handle: Some([0; 16]), data_value: vec![0, 1, 0, 0, sn as u8, 0, 0, 0].into() },
                    &NullWriter, &FixedClock);
                json!({"res": "Ok"})
            }
            "Match" => {
                let r = a["r"].as_u64().unwrap();
                self.w.add_matched_reader(ReaderProxy {
                    remote_reader_guid: Guid::new(reader_prefix(), reader_id(r)),
                    remote_group_entity_id: ENTITYID_UNKNOWN,
                    reliability_kind: if a["reliable"] == true { ReliabilityKind::Reliable } else { ReliabilityKind::BestEffort },
                    durability_kind: DurabilityKind::Volatile,
                    unicast_locator_list: vec![],
                    multicast_locator_list: vec![],
                    expects_inline_qos: false,
                });
                json!({"res": "Ok"})
            }
            "Unmatch" => {
                self.w.delete_matched_reader(Guid::new(reader_prefix(), reader_id(a["r"].as_u64().unwrap())));
                json!({"res": "Ok"})
            }
            "AckNack" => {
                let r = a["r"].as_u64().unwrap();
                let target = if a["target"] == "this" { this_writer() } else { sibling_writer() };
                let base = a["base"].as_i64().unwrap();
                let m = AckNackSubmessage::new(true, reader_id(r), target, SequenceNumberSet::new(base, []), a["count"].as_i64().unwrap() as i32);
                let res = self.w.on_acknack_submessage_received(&m, reader_prefix(), &NullWriter, &FixedClock);
                json!({"res": res.unwrap_or(-1)})
            }
            other => panic!("unknown op {other}"),
        }
    }
    fn project(&self) -> Value {
        let flags: Vec<bool> = (1..=self.max_sn + 1).map(|sn| self.w.is_change_acknowledged(sn)).collect();
        json!({"ackedflags": flags})
    }
}
