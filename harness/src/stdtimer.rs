//! The real std_runtime timer / block_on / block_timeout under concurrent stress, recorded as a trace
//! for Trace_Timer.tla (C42). Times are microseconds since the start of the run (monotonic clock).
use dust_dds::std_runtime::executor::{block_on, block_timeout};
use dust_dds::std_runtime::timer::TimerDriver;
use rand::{Rng, SeedableRng};
use serde_json::{Value, json};
use std::future::Future;
use std::sync::atomic::{AtomicI64, AtomicU32, Ordering};
use std::sync::{Arc, Mutex};
use std::task::{Context, Poll, Wake, Waker};
use std::time::{Duration, Instant};

struct TaskWaker {
    wakes: AtomicU32,
    last_wake_us: AtomicI64,
    thread: std::thread::Thread,
    start: Instant,
}
impl Wake for TaskWaker {
    fn wake(self: Arc<Self>) {
        self.wake_by_ref()
    }
    fn wake_by_ref(self: &Arc<Self>) {
        self.last_wake_us.store(self.start.elapsed().as_micros() as i64, Ordering::SeqCst);
        self.wakes.fetch_add(1, Ordering::SeqCst);
        self.thread.unpark();
    }
}

pub fn run(out: &str, threads: usize, sleeps: usize, seed: u64) {
    let start = Instant::now();
    let us = move || start.elapsed().as_micros() as i64;
    let driver = TimerDriver::new();
    let log: Arc<Mutex<Vec<Value>>> = Arc::new(Mutex::new(Vec::new()));
    let next_id = Arc::new(AtomicU32::new(1));
    std::thread::scope(|sc| {
        for th in 0..threads {
            let handle = driver.handle();
            let driver = &driver;
            let log = log.clone();
            let next_id = next_id.clone();
            sc.spawn(move || {
                let mut rng = rand::rngs::StdRng::seed_from_u64(seed * 1000 + th as u64);
                let mut local: Vec<Value> = Vec::new();
                for n in 0..sleeps {
                    let id = next_id.fetch_add(1, Ordering::SeqCst);
                    let kind = n % 5;
                    match kind {
                        // a sleep polled by hand until Ready, or dropped before its deadline
                        0 | 1 | 2 => {
                            let long = kind == 2;
                            let dur_us: i64 = if long { rng.gen_range(700_000..900_000) } else { rng.gen_range(0..40_000) };
                            let drop_it = long || rng.gen_bool(0.3);
                            let w = Arc::new(TaskWaker { wakes: AtomicU32::new(0), last_wake_us: AtomicI64::new(-1), thread: std::thread::current(), start });
                            let waker = Waker::from(w.clone());
                            let mut cx = Context::from_waker(&waker);
                            let mut s = Box::pin(handle.sleep(Duration::from_micros(dur_us as u64)));
                            let t0 = us();
                            let first = s.as_mut().poll(&mut cx);
                            local.push(json!({"ev": "Polled", "id": id, "t": t0, "dur": dur_us, "ready": first.is_ready()}));
                            if first.is_ready() {
                                local.push(json!({"ev": "Ready", "id": id, "t": us(), "polls": 1}));
                                continue;
                            }
                            if drop_it {
                                // drop well before the deadline, then watch the waker
                                let wait = if long { dur_us / 8 } else { dur_us / 3 };
                                std::thread::sleep(Duration::from_micros(wait as u64));
                                let before = w.wakes.load(Ordering::SeqCst);
                                drop(s);
                                let td = us();
                                local.push(json!({"ev": "Dropped", "id": id, "t": td, "wakes_before": before}));
                                let watch = if long { 1_000_000 } else { dur_us + 30_000 };
                                std::thread::sleep(Duration::from_micros(watch as u64));
                                let after = w.wakes.load(Ordering::SeqCst);
                                local.push(json!({"ev": "Watched", "id": id, "t": us(), "wakes_after_drop": after - before,
                                                  "last_wake": w.last_wake_us.load(Ordering::SeqCst)}));
                            } else {
                                let mut polls = 1;
                                let mut w = w;
                                let mut cx = cx;
                                let waker2;
                                if dur_us > 8_000 && rng.gen_bool(0.5) {
                                    // the sleep is polled again before its deadline with ANOTHER waker (a future handed from
                                    // block_timeout to block_on, or between tasks): from now on only that waker counts
                                    std::thread::sleep(Duration::from_micros((dur_us / 4) as u64));
                                    w = Arc::new(TaskWaker { wakes: AtomicU32::new(0), last_wake_us: AtomicI64::new(-1), thread: std::thread::current(), start });
                                    waker2 = Waker::from(w.clone());
                                    cx = Context::from_waker(&waker2);
                                    polls += 1;
                                    let again = s.as_mut().poll(&mut cx);
                                    local.push(json!({"ev": "Repolled", "id": id, "t": us(), "ready": again.is_ready()}));
                                    if again.is_ready() {
                                        local.push(json!({"ev": "Ready", "id": id, "t": us(), "polls": polls}));
                                        continue;
                                    }
                                }
                                let give_up = t0 + dur_us + 8_000_000;
                                let mut done = false;
                                while us() < give_up {
                                    std::thread::park_timeout(Duration::from_millis(50));
                                    if w.wakes.swap(0, Ordering::SeqCst) == 0 {
                                        continue; // only poll when woken: a lost wake-up shows as never Ready
                                    }
                                    polls += 1;
                                    if s.as_mut().poll(&mut cx).is_ready() {
                                        local.push(json!({"ev": "Ready", "id": id, "t": us(), "polls": polls}));
                                        done = true;
                                        break;
                                    }
                                }
                                if !done {
                                    local.push(json!({"ev": "GaveUp", "id": id, "t": us(), "polls": polls}));
                                }
                            }
                        }
                        // block_on returns the output of the future
                        3 => {
                            let dur_us: i64 = rng.gen_range(0..20_000);
                            let expect = rng.gen_range(0..1000) as i64;
                            let s = handle.sleep(Duration::from_micros(dur_us as u64));
                            let t0 = us();
                            let got = block_on(async move {
                                s.await;
                                expect
                            });
                            local.push(json!({"ev": "BlockOn", "id": id, "t": us(), "t0": t0, "dur": dur_us, "expect": expect, "got": got}));
                        }
                        // block_timeout: Timeout only when the future did not complete within the duration
                        _ => {
                            // the future is a chain of k sleeps (it is woken and polled k times before it completes)
                            let k: i64 = rng.gen_range(1..=5);
                            let dur_us: i64 = rng.gen_range(0..30_000);
                            let timeout_us: i64 = match rng.gen_range(0..4) { 0 => dur_us / 2, 1 => dur_us + 1_500_000, 2 => 2 * dur_us + 5_000, _ => rng.gen_range(0..30_000) };
                            let expect = rng.gen_range(0..1000) as i64;
                            let h2 = driver.handle();
                            let t0 = us();
                            let r = block_timeout(Duration::from_micros(timeout_us as u64), async move {
                                for _ in 0..k {
                                    h2.sleep(Duration::from_micros((dur_us / k) as u64)).await;
                                }
                                expect
                            });
                            // (elapsed time of the whole chain is at least k * (dur / k))
                            let dur_us = (dur_us / k) * k;
                            let t1 = us();
                            local.push(json!({"ev": "BlockTimeout", "id": id, "t": t1, "t0": t0, "dur": dur_us, "timeout": timeout_us,
                                              "res": if r.is_ok() { "Ok" } else { "Timeout" }, "expect": expect, "got": r.unwrap_or(-1)}));
                        }
                    }
                }
                log.lock().unwrap().extend(local);
            });
        }
    });
    let mut evs = log.lock().unwrap().clone();
    evs.sort_by_key(|e| e["t"].as_i64().unwrap_or(0));
    use std::io::Write;
    let mut f = std::fs::File::create(out).unwrap();
    writeln!(f, "{}", json!({"ev": "Reset", "t": 0, "threads": threads, "sleeps": sleeps})).unwrap();
    for e in evs {
        writeln!(f, "{}", e).unwrap();
    }
    writeln!(f, "{}", json!({"ev": "End", "t": us()})).unwrap();
}
