//! Compat.tla bound to the two request/offered compatibility functions of dust-dds (C15).
use dust_dds::infrastructure::{
    instance::InstanceHandle,
    qos::{DataReaderQos, DataWriterQos, PublisherQos, SubscriberQos, TopicQos},
    qos_policy::*,
    time::{Duration, DurationKind},
};
use dust_dds::rtps::stateful_reader::RtpsStatefulReader;
use dust_dds::transport::types::{EntityId, Guid, ReliabilityKind};
use dust_dds::verif::{DataReaderEntity, publication_builtin_topic_data, subscription_builtin_topic_data};
use serde_json::{Value, json};

fn dur(v: i64) -> DurationKind {
    // 3 = the largest finite duration (its seconds are those of the infinite sentinel), 4 = infinite
    if v >= 4 { DurationKind::Infinite } else if v == 3 { DurationKind::Finite(Duration::new(i32::MAX, 0)) } else { DurationKind::Finite(Duration::new(v as i32, 0)) }
}
fn repr(v: &Value) -> Vec<u16> {
    v.as_array().map(|a| a.iter().map(|x| x.as_i64().unwrap() as u16).collect()).unwrap_or_default()
}

pub fn qos_from_case(q: &Value) -> (DataWriterQos, PublisherQos, DataReaderQos, SubscriberQos) {
    let mut w = DataWriterQos::default();
    let mut r = DataReaderQos::default();
    let mut p = PublisherQos::default();
    let mut s = SubscriberQos::default();
    let dk = [DurabilityQosPolicyKind::Volatile, DurabilityQosPolicyKind::TransientLocal,
              DurabilityQosPolicyKind::Transient, DurabilityQosPolicyKind::Persistent];
    w.durability.kind = dk[q["durability"]["o"].as_u64().unwrap() as usize];
    r.durability.kind = dk[q["durability"]["r"].as_u64().unwrap() as usize];
    let rk = [ReliabilityQosPolicyKind::BestEffort, ReliabilityQosPolicyKind::Reliable];
    w.reliability.kind = rk[q["reliability"]["o"].as_u64().unwrap() as usize];
    r.reliability.kind = rk[q["reliability"]["r"].as_u64().unwrap() as usize];
    let lk = [LivelinessQosPolicyKind::Automatic, LivelinessQosPolicyKind::ManualByParticipant,
              LivelinessQosPolicyKind::ManualByTopic];
    w.liveliness.kind = lk[q["liveliness"]["ok"].as_u64().unwrap() as usize];
    w.liveliness.lease_duration = dur(q["liveliness"]["ol"].as_i64().unwrap());
    r.liveliness.kind = lk[q["liveliness"]["rk"].as_u64().unwrap() as usize];
    r.liveliness.lease_duration = dur(q["liveliness"]["rl"].as_i64().unwrap());
    w.deadline.period = dur(q["deadline"]["o"].as_i64().unwrap());
    r.deadline.period = dur(q["deadline"]["r"].as_i64().unwrap());
    w.latency_budget.duration = dur(q["latency"]["o"].as_i64().unwrap());
    r.latency_budget.duration = dur(q["latency"]["r"].as_i64().unwrap());
    let ok = [DestinationOrderQosPolicyKind::ByReceptionTimestamp, DestinationOrderQosPolicyKind::BySourceTimestamp];
    w.destination_order.kind = ok[q["destorder"]["o"].as_u64().unwrap() as usize];
    r.destination_order.kind = ok[q["destorder"]["r"].as_u64().unwrap() as usize];
    let wk = [OwnershipQosPolicyKind::Shared, OwnershipQosPolicyKind::Exclusive];
    w.ownership.kind = wk[q["ownership"]["o"].as_u64().unwrap() as usize];
    r.ownership.kind = wk[q["ownership"]["r"].as_u64().unwrap() as usize];
    let ak = [PresentationQosPolicyAccessScopeKind::Instance, PresentationQosPolicyAccessScopeKind::Topic];
    p.presentation.access_scope = ak[q["presentation"]["oa"].as_u64().unwrap() as usize];
    p.presentation.coherent_access = q["presentation"]["oc"].as_bool().unwrap();
    p.presentation.ordered_access = q["presentation"]["oo"].as_bool().unwrap();
    s.presentation.access_scope = ak[q["presentation"]["ra"].as_u64().unwrap() as usize];
    s.presentation.coherent_access = q["presentation"]["rc"].as_bool().unwrap();
    s.presentation.ordered_access = q["presentation"]["ro"].as_bool().unwrap();
    w.representation.value = repr(&q["representation"]["o"]);
    r.representation.value = repr(&q["representation"]["r"]);
    (w, p, r, s)
}

pub fn policy_name(id: QosPolicyId) -> String {
    match id {
        DURABILITY_QOS_POLICY_ID => "durability",
        PRESENTATION_QOS_POLICY_ID => "presentation",
        DEADLINE_QOS_POLICY_ID => "deadline",
        LATENCYBUDGET_QOS_POLICY_ID => "latency",
        OWNERSHIP_QOS_POLICY_ID => "ownership",
        LIVELINESS_QOS_POLICY_ID => "liveliness",
        RELIABILITY_QOS_POLICY_ID => "reliability",
        DESTINATIONORDER_QOS_POLICY_ID => "destorder",
        DATA_REPRESENTATION_QOS_POLICY_ID => "representation",
        _ => "other",
    }
    .to_string()
}

/// Evaluate every case; report disagreements between the spec verdict and each of the two functions.
pub fn run_cases(cases_path: &str) -> Value {
    let text = std::fs::read_to_string(cases_path).expect("cases");
    let mut n = 0usize;
    let mut nontrivial = 0usize;
    let mut dis: Vec<Value> = Vec::new();
    let mut dis_count = 0usize;
    for line in text.lines() {
        if line.trim().is_empty() {
            continue;
        }
        let c: Value = serde_json::from_str(line).unwrap();
        let (w, p, r, s) = qos_from_case(&c["q"]);
        let mut exp: Vec<String> = c["inc"].as_array().unwrap().iter().map(|x| x.as_str().unwrap().to_string()).collect();
        exp.sort();
        if !exp.is_empty() {
            nontrivial += 1;
        }
        let sub = subscription_builtin_topic_data([1; 16], [2; 16], "T", "T", &r, &s, &TopicQos::default());
        let mut by_writer: Vec<String> =
            dust_dds::verif::verif_incompatible_qos_for_writer(&w, &sub, &p).into_iter().map(policy_name).collect();
        by_writer.sort();
        by_writer.dedup();
        let pubd = publication_builtin_topic_data([3; 16], [4; 16], "T", "T", &w, &p, &TopicQos::default());
        let guid = Guid::new([9; 12], EntityId::new([0, 0, 9], 0x07));
        let entity = DataReaderEntity::new(InstanceHandle::new(guid.into()), r.clone(), "T".to_string(),
                                           RtpsStatefulReader::new(guid, ReliabilityKind::Reliable));
        let mut by_reader: Vec<String> =
            dust_dds::verif::verif_incompatible_qos_for_reader(&entity, &pubd, &s).into_iter().map(policy_name).collect();
        by_reader.sort();
        by_reader.dedup();
        n += 1;
        for (side, got) in [("writer", &by_writer), ("reader", &by_reader)] {
            if got != &exp {
                dis_count += 1;
                // signature: which policies are judged differently, by which side
                let mut diff: Vec<String> = exp.iter().filter(|x| !got.contains(x)).map(|x| format!("missing:{x}")).collect();
                diff.extend(got.iter().filter(|x| !exp.contains(x)).map(|x| format!("spurious:{x}")));
                let sig = format!("{side}:{}", diff.join(","));
                if !dis.iter().any(|d| d["sig"] == sig.as_str()) {
                    dis.push(json!({"sig": sig, "side": side, "case": c["q"], "expected": exp, "got": got}));
                }
            }
        }
    }
    json!({"cases": n, "nontrivial": nontrivial, "disagreements": dis_count, "distinct": dis})
}
