//! Scenario interpreter for the deterministic simulation: a scenario is JSON data (so that TLC
//! generated fault patterns and seeded random schedules share one format); the interpreter
//! drives the public async API and logs one event per API call / network decision.
use crate::sim::{self, Core, FaultMode, NS, Rule, Sim, SimNet, SimRuntime};
use dust_dds::dds_async::{
    data_reader::DataReaderAsync, data_writer::DataWriterAsync,
    domain_participant::DomainParticipantAsync, domain_participant_factory::DomainParticipantFactoryAsync,
    publisher::PublisherAsync, subscriber::SubscriberAsync, topic::TopicAsync,
};
use dust_dds::configuration::DustDdsConfiguration;
use dust_dds::infrastructure::{
    error::DdsError,
    listener::NO_LISTENER,
    qos::{DataReaderQos, DataWriterQos, QosKind},
    qos_policy::{
        DurabilityQosPolicyKind, HistoryQosPolicyKind, Length, ReliabilityQosPolicyKind,
    },
    sample_info::{ANY_INSTANCE_STATE, ANY_SAMPLE_STATE, ANY_VIEW_STATE, InstanceStateKind},
    status::NO_STATUS,
    time::{Duration, DurationKind, Time},
    type_support::DdsType,
};
use serde_json::{Value, json};
use std::sync::OnceLock;

#[derive(DdsType, Debug, Clone, PartialEq)]
pub struct KeyedData {
    #[dust_dds(key)]
    pub id: u8,
    pub w: u8,
    pub seq: u32,
    pub data: Vec<u8>,
}

/// type of the content filter scenarios (C26): filterable INT32 and STRING members
#[derive(DdsType, Debug, Clone, PartialEq)]
pub struct FilterData {
    #[dust_dds(key)]
    pub id: i32,
    pub val: i32,
    pub name: String,
    pub seq: u32,
}

pub fn payload(w: u8, seq: u32, len: usize) -> Vec<u8> {
    let mut x: u32 = 0x9e3779b9 ^ ((w as u32) << 24) ^ seq.wrapping_mul(2654435761);
    (0..len)
        .map(|_| {
            x ^= x << 13;
            x ^= x >> 17;
            x ^= x << 5;
            (x & 0xff) as u8
        })
        .collect()
}

/// Recording listeners: every callback is one event in the trace.
pub struct RecReaderListener {
    pub core: Core,
    pub level: &'static str,
    pub idx: usize,
}
impl dust_dds::dds_async::data_reader_listener::DataReaderListener<KeyedData> for RecReaderListener {
    fn on_data_available(&mut self, _r: DataReaderAsync<KeyedData>) -> impl std::future::Future<Output = ()> + Send {
        self.core.log(json!({"ev": "Listener", "level": self.level, "idx": self.idx, "kind": "DataAvailable"}));
        std::future::ready(())
    }
    fn on_sample_rejected(&mut self, _r: DataReaderAsync<KeyedData>, s: dust_dds::infrastructure::status::SampleRejectedStatus) -> impl std::future::Future<Output = ()> + Send {
        self.core.log(json!({"ev": "Listener", "level": self.level, "idx": self.idx, "kind": "SampleRejected", "tot": s.total_count, "chg": s.total_count_change, "reason": format!("{:?}", s.last_reason)}));
        std::future::ready(())
    }
    fn on_requested_deadline_missed(&mut self, _r: DataReaderAsync<KeyedData>, s: dust_dds::infrastructure::status::RequestedDeadlineMissedStatus) -> impl std::future::Future<Output = ()> + Send {
        self.core.log(json!({"ev": "Listener", "level": self.level, "idx": self.idx, "kind": "RequestedDeadlineMissed", "tot": s.total_count, "chg": s.total_count_change,
                              "ih": <[u8; 16]>::from(s.last_instance_handle)[0]}));
        std::future::ready(())
    }
    fn on_requested_incompatible_qos(&mut self, _r: DataReaderAsync<KeyedData>, s: dust_dds::infrastructure::status::RequestedIncompatibleQosStatus) -> impl std::future::Future<Output = ()> + Send {
        self.core.log(json!({"ev": "Listener", "level": self.level, "idx": self.idx, "kind": "RequestedIncompatibleQos", "tot": s.total_count, "chg": s.total_count_change, "last": s.last_policy_id,
                              "lastn": crate::compat::policy_name(s.last_policy_id),
                              "policies": s.policies.iter().filter(|p| p.count != 0).map(|p| (crate::compat::policy_name(p.policy_id), json!(p.count))).collect::<serde_json::Map<String, Value>>()}));
        std::future::ready(())
    }
    fn on_subscription_matched(&mut self, _r: DataReaderAsync<KeyedData>, s: dust_dds::infrastructure::status::SubscriptionMatchedStatus) -> impl std::future::Future<Output = ()> + Send {
        self.core.log(json!({"ev": "Listener", "level": self.level, "idx": self.idx, "kind": "SubscriptionMatched", "tot": s.total_count, "cur": s.current_count}));
        std::future::ready(())
    }
}
pub struct RecWriterListener {
    pub core: Core,
    pub level: &'static str,
    pub idx: usize,
}
impl dust_dds::dds_async::data_writer_listener::DataWriterListener<KeyedData> for RecWriterListener {
    fn on_offered_deadline_missed(&mut self, _w: DataWriterAsync<KeyedData>, s: dust_dds::infrastructure::status::OfferedDeadlineMissedStatus) -> impl std::future::Future<Output = ()> + Send {
        self.core.log(json!({"ev": "Listener", "level": self.level, "idx": self.idx, "kind": "OfferedDeadlineMissed", "tot": s.total_count, "chg": s.total_count_change,
                              "ih": <[u8; 16]>::from(s.last_instance_handle)[0]}));
        std::future::ready(())
    }
    fn on_offered_incompatible_qos(&mut self, _w: DataWriterAsync<KeyedData>, s: dust_dds::infrastructure::status::OfferedIncompatibleQosStatus) -> impl std::future::Future<Output = ()> + Send {
        self.core.log(json!({"ev": "Listener", "level": self.level, "idx": self.idx, "kind": "OfferedIncompatibleQos", "tot": s.total_count, "chg": s.total_count_change, "last": s.last_policy_id,
                              "lastn": crate::compat::policy_name(s.last_policy_id),
                              "policies": s.policies.iter().filter(|p| p.count != 0).map(|p| (crate::compat::policy_name(p.policy_id), json!(p.count))).collect::<serde_json::Map<String, Value>>()}));
        std::future::ready(())
    }
    fn on_publication_matched(&mut self, _w: DataWriterAsync<KeyedData>, s: dust_dds::infrastructure::status::PublicationMatchedStatus) -> impl std::future::Future<Output = ()> + Send {
        self.core.log(json!({"ev": "Listener", "level": self.level, "idx": self.idx, "kind": "PublicationMatched", "tot": s.total_count, "cur": s.current_count}));
        std::future::ready(())
    }
}

pub fn status_kinds(v: &Value) -> Vec<dust_dds::infrastructure::status::StatusKind> {
    use dust_dds::infrastructure::status::StatusKind::*;
    v.as_array().map(|a| a.iter().filter_map(|x| match x.as_str().unwrap_or("") {
        "OfferedDeadlineMissed" => Some(OfferedDeadlineMissed),
        "RequestedDeadlineMissed" => Some(RequestedDeadlineMissed),
        "OfferedIncompatibleQos" => Some(OfferedIncompatibleQos),
        "RequestedIncompatibleQos" => Some(RequestedIncompatibleQos),
        "SampleRejected" => Some(SampleRejected),
        "DataOnReaders" => Some(DataOnReaders),
        "DataAvailable" => Some(DataAvailable),
        "PublicationMatched" => Some(PublicationMatched),
        "SubscriptionMatched" => Some(SubscriptionMatched),
        "SampleLost" => Some(SampleLost),
        _ => None,
    }).collect()).unwrap_or_default()
}

/// Recording listener for subscriber / publisher / participant level.
pub struct RecAny {
    pub core: Core,
    pub level: &'static str,
}
impl RecAny {
    fn log(&self, kind: &str) -> std::future::Ready<()> {
        self.core.log(json!({"ev": "Listener", "level": self.level, "idx": 0, "kind": kind}));
        std::future::ready(())
    }
}
macro_rules! rec_reader_fns {
    () => {
        fn on_data_available(&mut self, _r: DataReaderAsync<()>) -> impl std::future::Future<Output = ()> + Send { self.log("DataAvailable") }
        fn on_sample_rejected(&mut self, _r: DataReaderAsync<()>, _s: dust_dds::infrastructure::status::SampleRejectedStatus) -> impl std::future::Future<Output = ()> + Send { self.log("SampleRejected") }
        fn on_requested_deadline_missed(&mut self, _r: DataReaderAsync<()>, _s: dust_dds::infrastructure::status::RequestedDeadlineMissedStatus) -> impl std::future::Future<Output = ()> + Send { self.log("RequestedDeadlineMissed") }
        fn on_requested_incompatible_qos(&mut self, _r: DataReaderAsync<()>, _s: dust_dds::infrastructure::status::RequestedIncompatibleQosStatus) -> impl std::future::Future<Output = ()> + Send { self.log("RequestedIncompatibleQos") }
        fn on_subscription_matched(&mut self, _r: DataReaderAsync<()>, _s: dust_dds::infrastructure::status::SubscriptionMatchedStatus) -> impl std::future::Future<Output = ()> + Send { self.log("SubscriptionMatched") }
    };
}
macro_rules! rec_writer_fns {
    () => {
        fn on_offered_deadline_missed(&mut self, _w: DataWriterAsync<()>, _s: dust_dds::infrastructure::status::OfferedDeadlineMissedStatus) -> impl std::future::Future<Output = ()> + Send { self.log("OfferedDeadlineMissed") }
        fn on_offered_incompatible_qos(&mut self, _w: DataWriterAsync<()>, _s: dust_dds::infrastructure::status::OfferedIncompatibleQosStatus) -> impl std::future::Future<Output = ()> + Send { self.log("OfferedIncompatibleQos") }
        fn on_publication_matched(&mut self, _w: DataWriterAsync<()>, _s: dust_dds::infrastructure::status::PublicationMatchedStatus) -> impl std::future::Future<Output = ()> + Send { self.log("PublicationMatched") }
    };
}
impl dust_dds::dds_async::subscriber_listener::SubscriberListener for RecAny {
    fn on_data_on_readers(&mut self, _s: SubscriberAsync) -> impl std::future::Future<Output = ()> + Send { self.log("DataOnReaders") }
    rec_reader_fns!();
}
impl dust_dds::dds_async::publisher_listener::PublisherListener for RecAny {
    rec_writer_fns!();
}
impl dust_dds::dds_async::domain_participant_listener::DomainParticipantListener for RecAny {
    rec_reader_fns!();
    rec_writer_fns!();
}

pub struct Global {
    pub sim: Sim,
    pub factory: DomainParticipantFactoryAsync<SimNet>,
}
// Sim is only used from the single driver thread
unsafe impl Sync for Global {}
unsafe impl Send for Global {}
static GLOBAL: OnceLock<Global> = OnceLock::new();

/// The DCPS channel of dust-dds is process-global: one factory (and one simulation core) per process.
pub fn global() -> &'static Global {
    GLOBAL.get_or_init(|| {
        let sim = Sim::new(1, 1344);
        let factory = DomainParticipantFactoryAsync::new(
            SimRuntime(sim.core.clone()),
            [0, 0, 0, 1],
            [10, 0, 0, 1],
            SimNet(sim.core.clone()),
            DustDdsConfiguration::default(),
        );
        Global { sim, factory }
    })
}

pub fn err_name(e: &DdsError) -> String {
    match e {
        DdsError::Error(_) => "Error".into(),
        DdsError::PreconditionNotMet(_) => "PreconditionNotMet".into(),
        other => format!("{other:?}"),
    }
}
fn res_name<T>(r: &Result<T, DdsError>) -> String {
    match r {
        Ok(_) => "Ok".into(),
        Err(e) => err_name(e),
    }
}

pub struct PartCtx {
    pub p: DomainParticipantAsync,
    pub topic: TopicAsync,
    pub publisher: PublisherAsync,
    pub subscriber: SubscriberAsync,
    pub index: usize, // index in the simulated network
}
pub struct WriterCtx {
    pub w: DataWriterAsync<KeyedData>,
    pub part: usize,
    pub next_seq: u32,
}
pub struct ReaderCtx {
    pub r: DataReaderAsync<KeyedData>,
    pub part: usize,
}

pub struct World {
    pub core: Core,
    pub parts: Vec<PartCtx>,
    pub writers: Vec<Option<WriterCtx>>,
    pub readers: Vec<Option<ReaderCtx>>,
    pub decoys: Vec<DataWriterAsync<KeyedData>>,
    pub conds: Vec<dust_dds::dds_async::condition::StatusConditionAsync>,
    pub domain: i32,
    pub fw: Option<DataWriterAsync<FilterData>>,
    pub fr: Vec<DataReaderAsync<FilterData>>, // [filtered, control]
    pub fseq: u32,
}

fn dur_kind_ms(v: &Value) -> DurationKind {
    match v.as_i64() {
        None => DurationKind::Infinite,
        Some(ms) if ms < 0 => DurationKind::Infinite,
        Some(ms) => DurationKind::Finite(Duration::new((ms / 1000) as i32, ((ms % 1000) * 1_000_000) as u32)),
    }
}

pub fn writer_qos(q: &Value) -> DataWriterQos {
    let mut qos = DataWriterQos::default();
    qos.reliability.kind = if q["rel"] == "BEST_EFFORT" {
        ReliabilityQosPolicyKind::BestEffort
    } else {
        ReliabilityQosPolicyKind::Reliable
    };
    if !q["max_blocking_ms"].is_null() {
        qos.reliability.max_blocking_time = dur_kind_ms(&q["max_blocking_ms"]);
    }
    qos.durability.kind = if q["dur"] == "TRANSIENT_LOCAL" {
        DurabilityQosPolicyKind::TransientLocal
    } else {
        DurabilityQosPolicyKind::Volatile
    };
    qos.history.kind = match q["hist"].as_u64() {
        Some(0) | None => HistoryQosPolicyKind::KeepAll,
        Some(d) => HistoryQosPolicyKind::KeepLast(d as u32),
    };
    if !q["lifespan_ms"].is_null() {
        qos.lifespan.duration = dur_kind_ms(&q["lifespan_ms"]);
    }
    if !q["deadline_ms"].is_null() {
        qos.deadline.period = dur_kind_ms(&q["deadline_ms"]);
    }
    if let Some(n) = q["max_samples"].as_i64() {
        qos.resource_limits.max_samples = Length::Limited(n as i32);
    }
    if let Some(n) = q["max_instances"].as_i64() {
        qos.resource_limits.max_instances = Length::Limited(n as i32);
    }
    if let Some(n) = q["max_samples_per_instance"].as_i64() {
        qos.resource_limits.max_samples_per_instance = Length::Limited(n as i32);
    }
    if q["own"] == "EXCLUSIVE" {
        qos.ownership.kind = dust_dds::infrastructure::qos_policy::OwnershipQosPolicyKind::Exclusive;
    }
    if let Some(n) = q["strength"].as_i64() {
        qos.ownership_strength.value = n as i32;
    }
    qos
}

pub fn reader_qos(q: &Value) -> DataReaderQos {
    let mut qos = DataReaderQos::default();
    qos.reliability.kind = if q["rel"] == "BEST_EFFORT" {
        ReliabilityQosPolicyKind::BestEffort
    } else {
        ReliabilityQosPolicyKind::Reliable
    };
    qos.durability.kind = if q["dur"] == "TRANSIENT_LOCAL" {
        DurabilityQosPolicyKind::TransientLocal
    } else {
        DurabilityQosPolicyKind::Volatile
    };
    qos.history.kind = match q["hist"].as_u64() {
        Some(0) | None => HistoryQosPolicyKind::KeepAll,
        Some(d) => HistoryQosPolicyKind::KeepLast(d as u32),
    };
    if !q["deadline_ms"].is_null() {
        qos.deadline.period = dur_kind_ms(&q["deadline_ms"]);
    }
    if q["own"] == "EXCLUSIVE" {
        qos.ownership.kind = dust_dds::infrastructure::qos_policy::OwnershipQosPolicyKind::Exclusive;
    }
    qos
}

impl World {
    pub fn new(domain: i32) -> Self {
        World { core: global().sim.core.clone(), parts: vec![], writers: vec![], readers: vec![], decoys: vec![], conds: vec![], domain, fw: None, fr: vec![], fseq: 0 }
    }

    pub async fn add_participant(&mut self) -> usize {
        let g = global();
        let index = self.core.lock().parts.len();
        let p = g
            .factory
            .create_participant(self.domain, QosKind::Default, NO_LISTENER, NO_STATUS)
            .await
            .expect("create_participant");
        let topic = p
            .create_topic::<KeyedData>("T", "KeyedData", QosKind::Default, NO_LISTENER, NO_STATUS)
            .await
            .expect("create_topic");
        let publisher = p.create_publisher(QosKind::Default, NO_LISTENER, NO_STATUS).await.expect("publisher");
        let subscriber = p.create_subscriber(QosKind::Default, NO_LISTENER, NO_STATUS).await.expect("subscriber");
        self.parts.push(PartCtx { p, topic, publisher, subscriber, index });
        self.parts.len() - 1
    }

    pub async fn sleep_ms(&self, ms: i64) {
        sim::sleep(&self.core, ms * 1_000_000).await
    }

    /// Run `main` while the side script `during` ([{"at_ms":..,<step>}..]) is executed concurrently.
    async fn with_side<T>(&mut self, main: impl std::future::Future<Output = T>, during: &Value) -> T {
        let side_steps: Vec<Value> = during.as_array().cloned().unwrap_or_default();
        let core = self.core.clone();
        let mut main = std::pin::pin!(main);
        let mut side = std::pin::pin!(async {
            let t0 = core.now_ns();
            for st in side_steps.iter() {
                let at = st["at_ms"].as_i64().unwrap_or(0) * 1_000_000;
                let wait = t0 + at - core.now_ns();
                if wait > 0 {
                    sim::sleep(&core, wait).await;
                }
                self.exec(st).await;
            }
        });
        let mut side_done = false;
        std::future::poll_fn(|cx| {
            if !side_done {
                if side.as_mut().poll(cx).is_ready() {
                    side_done = true;
                }
            }
            main.as_mut().poll(cx)
        })
        .await
    }

    /// Execute one scenario step; every API call is logged with its result.
    pub fn exec<'a>(&'a mut self, st: &'a Value) -> std::pin::Pin<Box<dyn std::future::Future<Output = ()> + 'a>> {
        Box::pin(self.exec_inner(st))
    }

    async fn exec_inner(&mut self, st: &Value) {
        let core = self.core.clone();
        match st["do"].as_str().unwrap_or("") {
            "participant" => {
                let saved = self.domain;
                if let Some(d) = st["domain"].as_i64() {
                    self.domain = d as i32;
                }
                if let Some(tag) = st["tag"].as_str() {
                    let cfg = dust_dds::configuration::DustDdsConfigurationBuilder::new().domain_tag(tag.to_string()).build().unwrap();
                    *global().factory.get_mut_configuration().await = cfg;
                }
                let k = self.add_participant().await;
                if st["tag"].is_string() {
                    *global().factory.get_mut_configuration().await = DustDdsConfiguration::default();
                }
                core.log(json!({"ev": "Participant", "p": k, "net": self.parts[k].index, "domain": self.domain, "tag": st["tag"]}));
                self.domain = saved;
            }
            "offered_deadline_status" => {
                let wi = st["w"].as_u64().unwrap_or(0) as usize;
                if let Some(wc) = self.writers[wi].as_ref() {
                    match wc.w.get_offered_deadline_missed_status().await {
                        Ok(s) => core.log(json!({"ev": "OfferedDeadlineStatus", "w": wi, "tot": s.total_count, "chg": s.total_count_change,
                                                  "ih": <[u8; 16]>::from(s.last_instance_handle)[0]})),
                        Err(e) => core.log(json!({"ev": "OfferedDeadlineStatus", "w": wi, "err": err_name(&e)})),
                    }
                }
            }
            "pub_status" => {
                let wi = st["w"].as_u64().unwrap_or(0) as usize;
                if let Some(wc) = self.writers[wi].as_ref() {
                    let m = wc.w.get_matched_subscriptions().await.map(|v| v.len() as i64).unwrap_or(-1);
                    match wc.w.get_publication_matched_status().await {
                        Ok(s) => core.log(json!({"ev": "PubStatus", "w": wi, "cur": s.current_count, "tot": s.total_count,
                                                  "curChg": s.current_count_change, "totChg": s.total_count_change, "n": m})),
                        Err(e) => core.log(json!({"ev": "PubStatus", "w": wi, "err": err_name(&e)})),
                    }
                }
            }
            "sub_status" => {
                let ri = st["r"].as_u64().unwrap_or(0) as usize;
                if let Some(rc) = self.readers[ri].as_ref() {
                    let m = rc.r.get_matched_publications().await.map(|v| v.len() as i64).unwrap_or(-1);
                    match rc.r.get_subscription_matched_status().await {
                        Ok(s) => core.log(json!({"ev": "SubStatus", "r": ri, "cur": s.current_count, "tot": s.total_count,
                                                  "curChg": s.current_count_change, "totChg": s.total_count_change, "n": m})),
                        Err(e) => core.log(json!({"ev": "SubStatus", "r": ri, "err": err_name(&e)})),
                    }
                }
            }
            "set_reader_qos" => {
                let ri = st["r"].as_u64().unwrap_or(0) as usize;
                if let Some(rc) = self.readers[ri].as_ref() {
                    let res = rc.r.set_qos(QosKind::Specific(reader_qos(&st["qos"]))).await;
                    core.log(json!({"ev": "SetReaderQos", "r": ri, "qos": st["qos"], "res": res_name(&res)}));
                }
            }
            "set_writer_qos" => {
                let wi = st["w"].as_u64().unwrap_or(0) as usize;
                if let Some(wc) = self.writers[wi].as_ref() {
                    let res = wc.w.set_qos(QosKind::Specific(writer_qos(&st["qos"]))).await;
                    core.log(json!({"ev": "SetWriterQos", "w": wi, "qos": st["qos"], "res": res_name(&res)}));
                }
            }
            "discovered" => {
                // which participants (by network index) does participant `part` currently know
                let k = st["part"].as_u64().unwrap_or(0) as usize;
                let res = self.parts[k].p.get_discovered_participants().await;
                let mut nets: Vec<i64> = res.as_ref().map(|v| v.iter().map(|h| {
                    let b: [u8; 16] = (*h).into();
                    u32::from_ne_bytes([b[8], b[9], b[10], b[11]]) as i64
                }).collect()).unwrap_or_default();
                nets.sort();
                core.log(json!({"ev": "Discovered", "p": k, "net": self.parts[k].index, "knows": nets, "res": res_name(&res)}));
            }
            "ignore_participant" => {
                let k = st["part"].as_u64().unwrap_or(0) as usize;
                let target = st["target"].as_u64().unwrap_or(1) as usize;
                let h = self.parts[target].p.get_instance_handle();
                let res = self.parts[k].p.ignore_participant(h).await;
                core.log(json!({"ev": "Ignore", "p": k, "net": self.parts[k].index, "target_net": self.parts[target].index, "res": res_name(&res)}));
            }
            "meta_faults" => {
                let fm = FaultMode {
                    loss: st["loss"].as_f64().unwrap_or(0.0),
                    dup: st["dup"].as_f64().unwrap_or(0.0),
                    delay: st["delay"].as_f64().unwrap_or(0.0),
                    max_delay_ns: st["max_delay_ms"].as_i64().unwrap_or(20) * 1_000_000,
                };
                core.lock().meta_faults = fm;
                core.log(json!({"ev": "MetaFaults", "loss": st["loss"]}));
            }
            "create_decoy_writer" => {
                // a writer on another topic of the same participant (never matched): exercises code that
                // iterates over all writers of a participant
                let part = st["part"].as_u64().unwrap_or(0) as usize;
                let qos = writer_qos(&st["qos"]);
                let tname = format!("Decoy{}", self.writers.len());
                if let Ok(topic) = self.parts[part].p.create_topic::<KeyedData>(&tname, "KeyedData", QosKind::Default, NO_LISTENER, NO_STATUS).await {
                    let w = self.parts[part].publisher.create_datawriter::<KeyedData>(&topic, QosKind::Specific(qos), NO_LISTENER, NO_STATUS).await;
                    core.log(json!({"ev": "CreateDecoyWriter", "part": part, "res": res_name(&w)}));
                    if let Ok(w) = w {
                        if st["write"].as_bool().unwrap_or(false) {
                            let _ = w.write(KeyedData { id: 9, w: 99, seq: 1, data: vec![1, 2, 3] }, None).await;
                        }
                        self.decoys.push(w);
                    }
                }
            }
            "create_writer" => {
                let part = st["part"].as_u64().unwrap_or(0) as usize;
                let qos = writer_qos(&st["qos"]);
                let idx = self.writers.len();
                let w = if st["listener"].is_array() {
                    let l = RecWriterListener { core: core.clone(), level: "writer", idx };
                    self.parts[part]
                        .publisher
                        .create_datawriter::<KeyedData>(&self.parts[part].topic, QosKind::Specific(qos), Some(l), &status_kinds(&st["listener"]))
                        .await
                } else {
                    self.parts[part]
                        .publisher
                        .create_datawriter::<KeyedData>(&self.parts[part].topic, QosKind::Specific(qos), NO_LISTENER, NO_STATUS)
                        .await
                };
                core.log(json!({"ev": "CreateWriter", "w": idx, "part": part, "net": self.parts[part].index, "qos": st["qos"], "res": res_name(&w), "listener": st["listener"]}));
                self.writers.push(w.ok().map(|w| WriterCtx { w, part, next_seq: 1 }));
            }
            "create_reader" => {
                let part = st["part"].as_u64().unwrap_or(0) as usize;
                let qos = reader_qos(&st["qos"]);
                let idx = self.readers.len();
                let r = if st["listener"].is_array() {
                    let l = RecReaderListener { core: core.clone(), level: "reader", idx };
                    self.parts[part]
                        .subscriber
                        .create_datareader::<KeyedData>(&self.parts[part].topic, QosKind::Specific(qos), Some(l), &status_kinds(&st["listener"]))
                        .await
                } else {
                    self.parts[part]
                        .subscriber
                        .create_datareader::<KeyedData>(&self.parts[part].topic, QosKind::Specific(qos), NO_LISTENER, NO_STATUS)
                        .await
                };
                core.log(json!({"ev": "CreateReader", "r": idx, "part": part, "net": self.parts[part].index, "qos": st["qos"], "res": res_name(&r), "listener": st["listener"]}));
                self.readers.push(r.ok().map(|r| ReaderCtx { r, part }));
            }
            "delete_reader" => {
                let ri = st["r"].as_u64().unwrap() as usize;
                if let Some(rc) = self.readers[ri].take() {
                    let res = self.parts[rc.part].subscriber.delete_datareader(&rc.r).await;
                    core.log(json!({"ev": "DeleteReader", "r": ri, "res": res_name(&res)}));
                }
            }
            "delete_writer" => {
                let wi = st["w"].as_u64().unwrap() as usize;
                if let Some(wc) = self.writers[wi].take() {
                    let res = self.parts[wc.part].publisher.delete_datawriter(&wc.w).await;
                    core.log(json!({"ev": "DeleteWriter", "w": wi, "res": res_name(&res)}));
                }
            }
            "wait_match" => {
                // wait until writer w has n matched subscriptions and every live reader sees it
                let wi = st["w"].as_u64().unwrap() as usize;
                let n = st["n"].as_u64().unwrap() as usize;
                let budget = st["ms"].as_i64().unwrap_or(10_000);
                let mut waited = 0;
                loop {
                    let m = self.writers[wi].as_ref().unwrap().w.get_matched_subscriptions().await.map(|v| v.len()).unwrap_or(0);
                    let mut readers_ok = true;
                    if st["readers"].as_bool().unwrap_or(true) {
                        for r in self.readers.iter().flatten() {
                            let pm = r.r.get_matched_publications().await.map(|v| v.len()).unwrap_or(0);
                            if pm == 0 {
                                readers_ok = false;
                            }
                        }
                    }
                    if m == n && (readers_ok || n == 0) {
                        break;
                    }
                    if waited >= budget {
                        break;
                    }
                    self.sleep_ms(5).await;
                    waited += 5;
                }
                let m = self.writers[wi].as_ref().unwrap().w.get_matched_subscriptions().await.map(|v| v.len()).unwrap_or(0);
                core.log(json!({"ev": "Matched", "w": wi, "n": m, "want": n}));
            }
            "write" | "dispose" | "unregister" | "register" => {
                let wi = st["w"].as_u64().unwrap_or(0) as usize;
                let kind = st["do"].as_str().unwrap();
                let id = st["i"].as_u64().unwrap_or(1) as u8;
                let len = st["len"].as_u64().unwrap_or(8) as usize;
                let wc = self.writers[wi].as_mut().unwrap();
                let seq = wc.next_seq;
                wc.next_seq += 1;
                let d = KeyedData { id, w: wi as u8, seq, data: payload(wi as u8, seq, len) };
                let ts = st["ts_ms"].as_i64().map(|ms| {
                    let ns = core.lock().epoch_ns + ms * 1_000_000;
                    sim::time_of(ns)
                });
                let t0 = core.now_ns() - core.lock().epoch_ns;
                core.log(json!({"ev": "WriteCall", "w": wi, "i": id, "seq": seq, "len": len, "kind": kind, "ts_ms": st["ts_ms"]}));
                let w = wc.w.clone();
                let kind_s = kind.to_string();
                let op = async move {
                    match (kind_s.as_str(), ts) {
                        ("write", None) => w.write(d, None).await,
                        ("write", Some(t)) => w.write_w_timestamp(d, None, t).await,
                        ("dispose", None) => w.dispose(d, None).await,
                        ("dispose", Some(t)) => w.dispose_w_timestamp(d, None, t).await,
                        ("unregister", None) => w.unregister_instance(d, None).await,
                        ("register", _) => w.register_instance(d).await.map(|_| ()),
                        (_, Some(t)) => w.unregister_instance_w_timestamp(d, None, t).await,
                        _ => unreachable!(),
                    }
                };
                let res = if st["during"].is_array() { self.with_side(op, &st["during"]).await } else { op.await };
                core.log(json!({"ev": "WriteRet", "w": wi, "i": id, "seq": seq, "len": len, "kind": kind, "res": res_name(&res), "t0": t0}));
            }
            "take" | "read" => {
                let ri = st["r"].as_u64().unwrap_or(0) as usize;
                let Some(rc) = self.readers[ri].as_ref() else { return };
                let max = st["max"].as_i64().unwrap_or(i32::MAX as i64) as i32;
                let res = if st["do"] == "take" {
                    rc.r.take(max, ANY_SAMPLE_STATE, ANY_VIEW_STATE, ANY_INSTANCE_STATE).await
                } else {
                    rc.r.read(max, ANY_SAMPLE_STATE, ANY_VIEW_STATE, ANY_INSTANCE_STATE).await
                };
                let samples: Vec<Value> = match &res {
                    Ok(list) => list
                        .iter()
                        .map(|s| {
                            let si = &s.sample_info;
                            let is = match si.instance_state {
                                InstanceStateKind::Alive => "ALIVE",
                                InstanceStateKind::NotAliveDisposed => "DISPOSED",
                                InstanceStateKind::NotAliveNoWriters => "NO_WRITERS",
                            };
                            let epoch = core.lock().epoch_ns;
                            let ts = si.source_timestamp.map(|t: Time| {
                                t.sec() as i64 * NS + t.nanosec() as i64 - epoch
                            });
                            match &s.data {
                                Some(d) => json!({"w": d.w, "seq": d.seq, "i": d.id, "len": d.data.len(),
                                                   "ok": d.data == payload(d.w, d.seq, d.data.len()),
                                                   "valid": si.valid_data, "is": is, "ts": ts,
                                                   "ih": <[u8;16]>::from(si.instance_handle)[0]}),
                                None => json!({"valid": si.valid_data, "is": is, "ts": ts,
                                               "ih": <[u8;16]>::from(si.instance_handle)[0]}),
                            }
                        })
                        .collect(),
                    Err(_) => vec![],
                };
                core.log(json!({"ev": if st["do"] == "take" {"Take"} else {"Read"}, "r": ri, "res": res_name(&res), "samples": samples}));
            }
            "wait_acks" => {
                let wi = st["w"].as_u64().unwrap_or(0) as usize;
                let ms = st["ms"].as_i64().unwrap_or(1000);
                let w = self.writers[wi].as_ref().unwrap().w.clone();
                core.log(json!({"ev": "WaitAcksCall", "w": wi, "ms": ms}));
                let t0 = core.now_ns();
                let core2 = core.clone();
                let op = async move { sim::with_timeout(&core2, ms * 1_000_000, w.wait_for_acknowledgments()).await };
                let r = if st["during"].is_array() { self.with_side(op, &st["during"]).await } else { op.await };
                let res = match r {
                    Some(r) => res_name(&r),
                    None => "Timeout".to_string(),
                };
                core.log(json!({"ev": "WaitAcksRet", "w": wi, "res": res, "dt": core.now_ns() - t0, "must": st["expect_ok"]}));
            }
            "wait_hist" => {
                let ri = st["r"].as_u64().unwrap_or(0) as usize;
                let ms = st["ms"].as_i64().unwrap_or(1000);
                let r = self.readers[ri].as_ref().unwrap().r.clone();
                core.log(json!({"ev": "WaitHistCall", "r": ri, "ms": ms}));
                let t0 = core.now_ns();
                let rr = sim::with_timeout(&core, ms * 1_000_000, r.wait_for_historical_data()).await;
                let res = match rr {
                    Some(r) => res_name(&r),
                    None => "Timeout".to_string(),
                };
                core.log(json!({"ev": "WaitHistRet", "r": ri, "res": res, "dt": core.now_ns() - t0, "must": st["expect_ok"]}));
            }
            "sleep" => {
                let ms = st["ms"].as_i64().unwrap_or(1);
                self.sleep_ms(ms).await;
                core.log(json!({"ev": "Tick"}));
            }
            "faults" => {
                let fm = FaultMode {
                    loss: st["loss"].as_f64().unwrap_or(0.0),
                    dup: st["dup"].as_f64().unwrap_or(0.0),
                    delay: st["delay"].as_f64().unwrap_or(0.0),
                    max_delay_ns: st["max_delay_ms"].as_i64().unwrap_or(20) * 1_000_000,
                };
                core.lock().user_faults = fm;
                core.log(json!({"ev": "Faults", "loss": st["loss"], "dup": st["dup"], "delay": st["delay"]}));
            }
            "rules" => {
                let mut rules = Vec::new();
                for r in st["rules"].as_array().cloned().unwrap_or_default() {
                    let from = self.parts[r["from_part"].as_u64().unwrap_or(0) as usize].index;
                    let to = self.parts[r["to_part"].as_u64().unwrap_or(1) as usize].index;
                    rules.push(Rule {
                        from,
                        to,
                        kind: r["kind"].as_str().unwrap_or("DATA").to_string(),
                        sn: r["sn"].as_i64(),
                        frag: r["frag"].as_i64(),
                        nth: r["nth"].as_u64().unwrap_or(1) as u32,
                        action: r["action"].as_str().unwrap_or("drop").to_string(),
                        delay_ns: r["delay_ms"].as_i64().unwrap_or(30) * 1_000_000,
                        seen: 0,
                    });
                }
                core.lock().rules = rules;
                core.log(json!({"ev": "Rules", "rules": st["rules"]}));
            }
            "partition" => {
                // block traffic from part a to part b (one direction)
                let a = self.parts[st["from_part"].as_u64().unwrap() as usize].index;
                let b = self.parts[st["to_part"].as_u64().unwrap() as usize].index;
                if st["user_only"].as_bool().unwrap_or(false) {
                    core.lock().blocked_user.push((a, b));
                } else {
                    core.lock().blocked.push((a, b));
                }
                core.log(json!({"ev": "Partition", "from": a, "to": b, "user_only": st["user_only"]}));
            }
            "unpartition" => {
                let a = self.parts[st["from_part"].as_u64().unwrap() as usize].index;
                let b = self.parts[st["to_part"].as_u64().unwrap() as usize].index;
                {
                    let mut c = core.lock();
                    c.blocked.retain(|x| *x != (a, b));
                    c.blocked_user.retain(|x| *x != (a, b));
                }
                core.log(json!({"ev": "Unpartition", "from": a, "to": b}));
            }
            "heal" => {
                {
                    let mut c = core.lock();
                    c.user_faults = FaultMode::default();
                    c.meta_faults = FaultMode::default();
                    c.rules.clear();
                    c.blocked.clear();
                    c.blocked_user.clear();
                    c.hold_user = false;
                }
                core.log(json!({"ev": "Heal"}));
            }
            "heal_meta_only" => {
                // nothing to do for metatraffic (it is never faulted unless a scenario says so)
                core.log(json!({"ev": "Tick"}));
            }
            "hold" => {
                core.lock().hold_user = st["on"].as_bool().unwrap_or(true);
                core.log(json!({"ev": "Hold", "on": st["on"]}));
            }
            "inject" => {
                // adversarial datagrams (Adversary.tla) delivered to participant `to`
                let to = st["to"].as_u64().unwrap_or(1) as usize;
                let known = st["known"].as_u64().unwrap_or(0) as usize;
                let h12 = |h: dust_dds::infrastructure::instance::InstanceHandle| { let b: [u8; 16] = h.into(); let mut p = [0u8; 12]; p.copy_from_slice(&b[..12]); p };
                let e4 = |h: dust_dds::infrastructure::instance::InstanceHandle| { let b: [u8; 16] = h.into(); [b[12], b[13], b[14], b[15]] };
                let pw = st["peer_writer"].as_u64().unwrap_or(0) as usize;
                let vr = st["victim_reader"].as_u64().unwrap_or(0) as usize;
                let vw = st["victim_writer"].as_u64().unwrap_or(1) as usize;
                let pr = st["peer_reader"].as_u64().unwrap_or(1) as usize;
                let ctx = crate::adv::AdvCtx {
                    known_prefix: h12(self.parts[known].p.get_instance_handle()),
                    victim_prefix: h12(self.parts[to].p.get_instance_handle()),
                    peer_writer: e4(self.writers[pw].as_ref().unwrap().w.get_instance_handle()),
                    peer_reader: e4(self.readers[pr].as_ref().unwrap().r.get_instance_handle()),
                    victim_reader: e4(self.readers[vr].as_ref().unwrap().r.get_instance_handle()),
                    victim_writer: e4(self.writers[vw].as_ref().unwrap().w.get_instance_handle()),
                    next_sn: self.writers[pw].as_ref().unwrap().next_seq as i64,
                };
                let net = self.parts[to].index;
                for m in st["msgs"].as_array().cloned().unwrap_or_default() {
                    let bytes = crate::adv::build(&m, &ctx);
                    let len = bytes.len();
                    core.log(json!({"ev": "Inject", "id": m["id"], "len": len, "msg": m}));
                    crate::alloc_reset_peak();
                    let base = crate::alloc_current();
                    let t0 = std::time::Instant::now();
                    core.inject(net, bytes);
                    self.sleep_ms(2).await;
                    let peak = crate::alloc_peak().saturating_sub(base);
                    core.log(json!({"ev": "Injected", "id": m["id"], "len": len, "peak": peak, "wall_us": t0.elapsed().as_micros() as u64}));
                }
            }
            "probe" => {
                // a fresh, well behaved participant must be able to communicate with participant `victim` in both directions
                let victim = st["victim"].as_u64().unwrap_or(1) as usize;
                let vr = st["victim_reader"].as_u64().unwrap_or(0) as usize;
                let vw = st["victim_writer"].as_u64().unwrap_or(1) as usize;
                let tag = st["tag"].as_u64().unwrap_or(200) as u8;
                let budget_ms = st["ms"].as_i64().unwrap_or(6000);
                let k = self.add_participant().await;
                let w = self.parts[k].publisher.create_datawriter::<KeyedData>(&self.parts[k].topic, QosKind::Specific(writer_qos(&json!({"rel": "RELIABLE", "hist": 0}))), NO_LISTENER, NO_STATUS).await;
                let r = self.parts[k].subscriber.create_datareader::<KeyedData>(&self.parts[k].topic, QosKind::Specific(reader_qos(&json!({"rel": "RELIABLE", "hist": 0}))), NO_LISTENER, NO_STATUS).await;
                let mut why = String::new();
                let mut ok = false;
                if let (Ok(w), Ok(r)) = (w, r) {
                    let wh = w.get_instance_handle();
                    let rh = r.get_instance_handle();
                    let vreader = self.readers[vr].as_ref().unwrap().r.clone();
                    let vwriter = self.writers[vw].as_ref().unwrap().w.clone();
                    // 1. the victim answers API calls
                    let api = vreader.get_qos().await.is_ok() && self.parts[victim].p.get_discovered_participants().await.is_ok();
                    // 2. discovery in both directions
                    let mut waited = 0;
                    let mut matched = false;
                    while waited < budget_ms {
                        let a = vreader.get_matched_publications().await.map(|v| v.contains(&wh)).unwrap_or(false);
                        let b = vwriter.get_matched_subscriptions().await.map(|v| v.contains(&rh)).unwrap_or(false);
                        if a && b { matched = true; break; }
                        self.sleep_ms(100).await;
                        waited += 100;
                    }
                    // 3. a sample in each direction
                    let mut got_in = false;
                    let mut got_out = false;
                    if matched {
                        let _ = w.write(KeyedData { id: 7, w: tag, seq: 1, data: payload(tag, 1, 16) }, None).await;
                        let _ = sim::with_timeout(&core, 2_000_000_000, vwriter.write(KeyedData { id: 8, w: tag, seq: 2, data: payload(tag, 2, 16) }, None)).await;
                        let mut waited = 0;
                        while waited < budget_ms && !(got_in && got_out) {
                            if let Ok(l) = vreader.read(i32::MAX, ANY_SAMPLE_STATE, ANY_VIEW_STATE, ANY_INSTANCE_STATE).await {
                                got_in = got_in || l.iter().filter_map(|s| s.data.as_ref()).any(|d| d.w == tag && d.seq == 1);
                            }
                            if let Ok(l) = r.take(i32::MAX, ANY_SAMPLE_STATE, ANY_VIEW_STATE, ANY_INSTANCE_STATE).await {
                                got_out = got_out || l.iter().filter_map(|s| s.data.as_ref()).any(|d| d.w == tag && d.seq == 2);
                            }
                            if !(got_in && got_out) { self.sleep_ms(100).await; waited += 100; }
                        }
                    }
                    ok = api && matched && got_in && got_out;
                    why = format!("api={api} matched={matched} victim_received={got_in} victim_sent={got_out}");
                } else {
                    why = "probe endpoints could not be created".into();
                }
                core.log(json!({"ev": "Probe", "ok": ok, "why": why}));
                let _ = self.parts[k].p.delete_contained_entities().await;
                let _ = global().factory.delete_participant(&self.parts[k].p).await;
            }
            "keyhash_e2e" => {
                let values: Vec<Value> = st["values"].as_array().cloned().unwrap_or_default();
                let t = st["type"].as_str().unwrap_or("T1").to_string();
                for e in crate::keyhash::e2e(self, &t, &values).await {
                    core.log(e);
                }
            }
            "merge_held" => {
                let n = core.merge_held_user();
                core.log(json!({"ev": "MergeHeld", "merged": n}));
            }
            "cft_writer" => {
                // writer of the related topic "F" on participant `part`
                let part = st["part"].as_u64().unwrap_or(0) as usize;
                let qos = writer_qos(&st["qos"]);
                let r: Result<_, DdsError> = async {
                    let t = self.parts[part].p.create_topic::<FilterData>("F", "FilterData", QosKind::Default, NO_LISTENER, NO_STATUS).await?;
                    self.parts[part].publisher.create_datawriter::<FilterData>(&t, QosKind::Specific(qos), NO_LISTENER, NO_STATUS).await
                }.await;
                core.log(json!({"ev": "CftWriter", "res": res_name(&r)}));
                self.fw = r.ok();
            }
            "cft_readers" => {
                // a reader on a content filtered topic of "F" and a control reader on "F" itself, same subscriber
                let part = st["part"].as_u64().unwrap_or(1) as usize;
                let qos = reader_qos(&st["qos"]);
                let expr = st["expr"].as_str().unwrap().to_string();
                let params: Vec<String> = st["params"].as_array().unwrap().iter().map(|x| x.as_str().unwrap().to_string()).collect();
                let r: Result<_, DdsError> = async {
                    let p = &self.parts[part].p;
                    let t = match p.create_topic::<FilterData>("F", "FilterData", QosKind::Default, NO_LISTENER, NO_STATUS).await {
                        Ok(t) => t,
                        Err(_) => p.find_topic::<FilterData>("F", Duration::new(1, 0)).await?,
                    };
                    let cft = p.create_contentfilteredtopic("F_filtered", &t, expr.clone(), params.clone()).await?;
                    let filtered = self.parts[part].subscriber.create_datareader::<FilterData>(&cft, QosKind::Specific(qos.clone()), NO_LISTENER, NO_STATUS).await?;
                    let control = self.parts[part].subscriber.create_datareader::<FilterData>(&t, QosKind::Specific(qos.clone()), NO_LISTENER, NO_STATUS).await?;
                    let mut v = vec![filtered, control];
                    // optionally a second filtered reader of the SAME subscriber with the same expression and other parameters
                    if let Some(p2) = st["params2"].as_array() {
                        let params2: Vec<String> = p2.iter().map(|x| x.as_str().unwrap().to_string()).collect();
                        let cft2 = p.create_contentfilteredtopic("F_filtered2", &t, expr.clone(), params2).await?;
                        v.push(self.parts[part].subscriber.create_datareader::<FilterData>(&cft2, QosKind::Specific(qos), NO_LISTENER, NO_STATUS).await?);
                    }
                    Ok(v)
                }.await;
                core.log(json!({"ev": "CftReaders", "res": res_name(&r), "expr": expr, "params": params, "params2": st["params2"], "field": st["field"], "op": st["op"]}));
                self.fr = r.unwrap_or_default();
            }
            "write_f" => {
                self.fseq += 1;
                let d = FilterData { id: st["id"].as_i64().unwrap_or(0) as i32, val: st["val"].as_i64().unwrap_or(0) as i32,
                                     name: st["name"].as_str().unwrap_or("").to_string(), seq: self.fseq };
                let res = match &self.fw {
                    Some(w) => sim::with_timeout(&core, 5_000_000_000, w.write(d.clone(), None)).await.unwrap_or(Err(DdsError::Timeout)),
                    None => Err(DdsError::AlreadyDeleted),
                };
                core.log(json!({"ev": "WriteF", "seq": d.seq, "id": d.id, "val": d.val, "name": d.name, "res": res_name(&res)}));
            }
            "take_f" => {
                // (the control reader is taken last: the final completeness rule is evaluated at its take)
                for (k, which) in [(0usize, "filtered"), (2, "filtered2"), (1, "control")] {
                    if let Some(r) = self.fr.get(k) {
                        let res = r.take(i32::MAX, ANY_SAMPLE_STATE, ANY_VIEW_STATE, ANY_INSTANCE_STATE).await;
                        let samples: Vec<Value> = res.as_ref().map(|l| l.iter().filter_map(|s| s.data.as_ref())
                            .map(|d| json!({"seq": d.seq, "id": d.id, "val": d.val, "name": d.name})).collect()).unwrap_or_default();
                        core.log(json!({"ev": "TakeF", "which": which, "res": res_name(&res), "samples": samples, "final": st["final"].as_bool().unwrap_or(false)}));
                    }
                }
            }
            "quiesce" => {
                let ms = st["ms"].as_i64().unwrap_or(3000);
                self.sleep_ms(ms).await;
                core.log(json!({"ev": "Quiesce", "ms": ms}));
            }
            "compat_case" => {
                // writer (participant 0) and reader (participant 1) with the QoS of an enumerated
                // Compat.tla case and the given partition lists; report the matched counts of both sides
                let (wq, mut pq, rq, mut sq) = crate::compat::qos_from_case(&st["q"]);
                let names = |v: &Value| -> Vec<String> {
                    v.as_array().map(|a| a.iter().map(|n| n.as_array().map(|cs| cs.iter().map(|c| c.as_str().unwrap_or("")).collect::<String>()).unwrap_or_default()).collect()).unwrap_or_default()
                };
                pq.partition.name = names(&st["pp"]);
                sq.partition.name = names(&st["sp"]);
                let publisher = self.parts[0].p.create_publisher(QosKind::Specific(pq), NO_LISTENER, NO_STATUS).await;
                let subscriber = self.parts[1].p.create_subscriber(QosKind::Specific(sq), NO_LISTENER, NO_STATUS).await;
                let (Ok(publisher), Ok(subscriber)) = (publisher, subscriber) else {
                    core.log(json!({"ev": "CompatResult", "err": "publisher/subscriber creation failed"}));
                    return;
                };
                // the incompatible-QoS statuses are observed through listeners (the status getters of the API are not implemented)
                let cid = st["id"].as_u64().unwrap_or(0) as usize;
                let wl = RecWriterListener { core: core.clone(), level: "compat-w", idx: cid };
                let rl = RecReaderListener { core: core.clone(), level: "compat-r", idx: cid };
                let w = publisher.create_datawriter::<KeyedData>(&self.parts[0].topic, QosKind::Specific(wq), Some(wl), &[dust_dds::infrastructure::status::StatusKind::OfferedIncompatibleQos]).await;
                let r = subscriber.create_datareader::<KeyedData>(&self.parts[1].topic, QosKind::Specific(rq), Some(rl), &[dust_dds::infrastructure::status::StatusKind::RequestedIncompatibleQos]).await;
                match (w, r) {
                    (Ok(w), Ok(r)) => {
                        self.sleep_ms(st["ms"].as_i64().unwrap_or(400)).await;
                        let wm = w.get_matched_subscriptions().await.map(|v| v.len() as i64).unwrap_or(-1);
                        let rm = r.get_matched_publications().await.map(|v| v.len() as i64).unwrap_or(-1);
                        core.log(json!({"ev": "CompatResult", "w_matched": wm, "r_matched": rm, "id": st["id"]}));
                        let _ = publisher.delete_datawriter(&w).await;
                        let _ = subscriber.delete_datareader(&r).await;
                    }
                    (w, r) => {
                        core.log(json!({"ev": "CompatResult", "skip": format!("create: writer {} reader {}", res_name(&w), res_name(&r)), "id": st["id"]}));
                        if let Ok(w) = w {
                            let _ = publisher.delete_datawriter(&w).await;
                        }
                        if let Ok(r) = r {
                            let _ = subscriber.delete_datareader(&r).await;
                        }
                    }
                }
                let _ = self.parts[0].p.delete_publisher(&publisher).await;
                let _ = self.parts[1].p.delete_subscriber(&subscriber).await;
                self.sleep_ms(50).await;
            }
            "wait_set" => {
                // WaitSetAsync::wait on the status condition of reader r (enabled statuses as given),
                // with a simulated timeout, while the side script changes statuses / enabled masks
                let ri = st["r"].as_u64().unwrap_or(0) as usize;
                let Some(rc) = self.readers[ri].as_ref() else { return };
                let cond = rc.r.get_statuscondition();
                let _ = cond.set_enabled_statuses(&status_kinds(&st["enabled"])).await;
                self.conds = vec![cond.clone()];
                let mut ws = dust_dds::dds_async::wait_set::WaitSetAsync::new();
                let _ = ws.attach_condition(dust_dds::dds_async::wait_set::ConditionAsync::StatusCondition(cond.clone())).await;
                let ms = st["ms"].as_i64().unwrap_or(1000);
                let t0 = core.now_ns();
                let tv = cond.get_trigger_value().await.unwrap_or(false);
                core.log(json!({"ev": "WaitCall", "r": ri, "ms": ms, "trigger": tv}));
                let core2 = core.clone();
                let op = async move { sim::with_timeout(&core2, ms * 1_000_000, ws.wait()).await };
                let r = if st["during"].is_array() { self.with_side(op, &st["during"]).await } else { op.await };
                let (res, n) = match r {
                    Some(Ok(v)) => ("Ok".to_string(), v.len()),
                    Some(Err(e)) => (err_name(&e), 0),
                    None => ("Timeout".to_string(), 0),
                };
                let tv = cond.get_trigger_value().await.unwrap_or(false);
                core.log(json!({"ev": "WaitRet", "r": ri, "res": res, "n": n, "dt": core.now_ns() - t0, "trigger": tv}));
            }
            "set_enabled" => {
                if let Some(c) = self.conds.first() {
                    let res = c.set_enabled_statuses(&status_kinds(&st["enabled"])).await;
                    let tv = c.get_trigger_value().await.unwrap_or(false);
                    core.log(json!({"ev": "TriggerObs", "after": "set_enabled", "trigger": tv, "res": res_name(&res)}));
                }
            }
            "trigger_obs" => {
                if let Some(c) = self.conds.first() {
                    let tv = c.get_trigger_value().await.unwrap_or(false);
                    core.log(json!({"ev": "TriggerObs", "after": "obs", "trigger": tv}));
                }
            }
            "dispatch_case" => {
                // one listener-dispatch configuration (StatusWait.tla Dispatch): the observed participant A has
                // recording listeners at the three levels with the given masks; participant B is the remote peer
                let g = global();
                let kind = st["status"].as_str().unwrap_or("").to_string();
                let on = |b: &Value, k: &str| -> Vec<dust_dds::infrastructure::status::StatusKind> { if b.as_bool().unwrap_or(false) { status_kinds(&json!([k])) } else { vec![] } };
                let pmask = on(&st["pm"], &kind);
                let mut gmask = on(&st["gm"], &kind);
                if st["dor"].as_bool().unwrap_or(false) {
                    gmask.extend(status_kinds(&json!(["DataOnReaders"])));
                }
                let emask = on(&st["em"], &kind);
                let how = st["how"].as_str().unwrap_or("create").to_string();
                let later = how == "set";
                let none: Vec<dust_dds::infrastructure::status::StatusKind> = vec![];
                let a = if later {
                    g.factory.create_participant(self.domain, QosKind::Default, NO_LISTENER, NO_STATUS).await.expect("participant A")
                } else {
                    g.factory.create_participant(self.domain, QosKind::Default, Some(RecAny { core: core.clone(), level: "participant" }), &pmask).await.expect("participant A")
                };
                let b = g.factory.create_participant(self.domain, QosKind::Default, NO_LISTENER, NO_STATUS).await.expect("participant B");
                let ta = a.create_topic::<KeyedData>("T", "KeyedData", QosKind::Default, NO_LISTENER, NO_STATUS).await.unwrap();
                let tb = b.create_topic::<KeyedData>("T", "KeyedData", QosKind::Default, NO_LISTENER, NO_STATUS).await.unwrap();
                let (pa, sa) = if later {
                    (a.create_publisher(QosKind::Default, NO_LISTENER, NO_STATUS).await.unwrap(), a.create_subscriber(QosKind::Default, NO_LISTENER, NO_STATUS).await.unwrap())
                } else {
                    (a.create_publisher(QosKind::Default, Some(RecAny { core: core.clone(), level: "publisher" }), &gmask).await.unwrap(),
                     a.create_subscriber(QosKind::Default, Some(RecAny { core: core.clone(), level: "subscriber" }), &gmask).await.unwrap())
                };
                if later {
                    let _ = a.set_listener(Some(RecAny { core: core.clone(), level: "participant" }), &pmask).await;
                    let _ = pa.set_listener(Some(RecAny { core: core.clone(), level: "publisher" }), &gmask).await;
                    let _ = sa.set_listener(Some(RecAny { core: core.clone(), level: "subscriber" }), &gmask).await;
                }
                if how == "removed-group" {
                    let _ = pa.set_listener(None::<RecAny>, &none).await;
                    let _ = sa.set_listener(None::<RecAny>, &none).await;
                }
                let pb = b.create_publisher(QosKind::Default, NO_LISTENER, NO_STATUS).await.unwrap();
                let sb = b.create_subscriber(QosKind::Default, NO_LISTENER, NO_STATUS).await.unwrap();
                let reader_side = matches!(kind.as_str(), "SubscriptionMatched" | "DataAvailable" | "RequestedDeadlineMissed" | "SampleRejected" | "RequestedIncompatibleQos");
                let mut aq_r = DataReaderQos::default();
                let mut aq_w = DataWriterQos::default();
                let mut bq_r = DataReaderQos::default();
                let mut bq_w = DataWriterQos::default();
                aq_r.reliability.kind = ReliabilityQosPolicyKind::Reliable;
                bq_r.reliability.kind = ReliabilityQosPolicyKind::Reliable;
                let d100 = DurationKind::Finite(Duration::new(0, 100_000_000));
                match kind.as_str() {
                    "RequestedDeadlineMissed" => { aq_r.deadline.period = d100; bq_w.deadline.period = d100; }
                    "OfferedDeadlineMissed" => { aq_w.deadline.period = d100; bq_r.deadline.period = d100; }
                    "SampleRejected" => { aq_r.history.kind = HistoryQosPolicyKind::KeepAll; aq_r.resource_limits.max_samples = Length::Limited(1); aq_r.resource_limits.max_samples_per_instance = Length::Limited(1); }
                    "RequestedIncompatibleQos" => { bq_w.reliability.kind = ReliabilityQosPolicyKind::BestEffort; }
                    "OfferedIncompatibleQos" => { aq_w.reliability.kind = ReliabilityQosPolicyKind::BestEffort; }
                    _ => {}
                }
                core.log(json!({"ev": "DispatchCase", "status": kind, "em": st["em"], "gm": st["gm"], "pm": st["pm"], "dor": st["dor"], "id": st["id"]}));
                if reader_side {
                    let ra = if later {
                        sa.create_datareader::<KeyedData>(&ta, QosKind::Specific(aq_r), NO_LISTENER, NO_STATUS).await
                    } else {
                        sa.create_datareader::<KeyedData>(&ta, QosKind::Specific(aq_r), Some(RecReaderListener { core: core.clone(), level: "reader", idx: 0 }), &emask).await
                    };
                    if let Ok(r) = &ra {
                        if later { let _ = r.set_listener(Some(RecReaderListener { core: core.clone(), level: "reader", idx: 0 }), &emask).await; }
                        if how == "removed-endpoint" { let _ = r.set_listener(None::<RecReaderListener>, &none).await; }
                    }
                    self.sleep_ms(100).await;
                    let wb = pb.create_datawriter::<KeyedData>(&tb, QosKind::Specific(bq_w), NO_LISTENER, NO_STATUS).await;
                    self.sleep_ms(300).await;
                    if let (Ok(_ra), Ok(wb)) = (&ra, &wb) {
                        if matches!(kind.as_str(), "DataAvailable" | "RequestedDeadlineMissed" | "SampleRejected") {
                            let _ = wb.write(KeyedData { id: 1, w: 0, seq: 1, data: vec![1] }, None).await;
                            if kind == "SampleRejected" {
                                let _ = wb.write(KeyedData { id: 1, w: 0, seq: 2, data: vec![2] }, None).await;
                            }
                            self.sleep_ms(330).await;
                        }
                    } else {
                        core.log(json!({"ev": "DispatchSkip", "why": format!("reader {} writer {}", res_name(&ra), res_name(&wb))}));
                    }
                } else {
                    let wa = if later {
                        pa.create_datawriter::<KeyedData>(&ta, QosKind::Specific(aq_w), NO_LISTENER, NO_STATUS).await
                    } else {
                        pa.create_datawriter::<KeyedData>(&ta, QosKind::Specific(aq_w), Some(RecWriterListener { core: core.clone(), level: "writer", idx: 0 }), &emask).await
                    };
                    if let Ok(w) = &wa {
                        if later { let _ = w.set_listener(Some(RecWriterListener { core: core.clone(), level: "writer", idx: 0 }), &emask).await; }
                        if how == "removed-endpoint" { let _ = w.set_listener(None::<RecWriterListener>, &none).await; }
                    }
                    self.sleep_ms(100).await;
                    let rb = sb.create_datareader::<KeyedData>(&tb, QosKind::Specific(bq_r), NO_LISTENER, NO_STATUS).await;
                    self.sleep_ms(300).await;
                    if let (Ok(wa), Ok(_rb)) = (&wa, &rb) {
                        if kind == "OfferedDeadlineMissed" {
                            let _ = wa.write(KeyedData { id: 1, w: 0, seq: 1, data: vec![1] }, None).await;
                            self.sleep_ms(330).await;
                        }
                    } else {
                        core.log(json!({"ev": "DispatchSkip", "why": format!("writer {} reader {}", res_name(&wa), res_name(&rb))}));
                    }
                }
                core.log(json!({"ev": "DispatchEnd", "id": st["id"]}));
                let _ = a.delete_contained_entities().await;
                let _ = b.delete_contained_entities().await;
                let _ = g.factory.delete_participant(&a).await;
                let _ = g.factory.delete_participant(&b).await;
                self.sleep_ms(20).await;
            }
            "final" => {
                core.log(json!({"ev": "Final"}));
            }
            "delete_participant" => {
                let k = st["part"].as_u64().unwrap() as usize;
                let g = global();
                for w in self.writers.iter_mut() {
                    if w.as_ref().map(|x| x.part == k).unwrap_or(false) {
                        *w = None;
                    }
                }
                for r in self.readers.iter_mut() {
                    if r.as_ref().map(|x| x.part == k).unwrap_or(false) {
                        *r = None;
                    }
                }
                let _ = self.parts[k].p.delete_contained_entities().await;
                let res = g.factory.delete_participant(&self.parts[k].p).await;
                core.log(json!({"ev": "DeleteParticipant", "p": k, "net": self.parts[k].index, "res": res_name(&res)}));
            }
            "unsilence" => {
                core.lock().blocked.clear();
                core.log(json!({"ev": "Unsilence"}));
            }
            "silence_participant" => {
                // the participant disappears without saying goodbye: all its traffic is dropped
                let k = self.parts[st["part"].as_u64().unwrap() as usize].index;
                let n = core.lock().parts.len();
                {
                    let mut c = core.lock();
                    for j in 0..n {
                        c.blocked.push((k, j));
                        c.blocked.push((j, k));
                    }
                }
                core.log(json!({"ev": "Silence", "net": k}));
            }
            other => panic!("unknown scenario step {other}"),
        }
    }

    pub async fn cleanup(&mut self) {
        let g = global();
        self.writers.clear();
        self.readers.clear();
        self.decoys.clear();
        self.conds.clear();
        {
            let mut c = self.core.lock();
            c.user_faults = FaultMode::default();
            c.meta_faults = FaultMode::default();
            c.rules.clear();
            c.blocked.clear();
            c.blocked_user.clear();
            c.hold_user = false;
        }
        for pc in self.parts.drain(..) {
            let _ = pc.p.delete_contained_entities().await;
            let _ = g.factory.delete_participant(&pc.p).await;
        }
        // let goodbye traffic drain
        sim::sleep(&self.core, 1_000_000).await;
        self.core.lock().inflight.clear();
    }
}

/// Run one scenario (JSON) and return its event log. `Reset` is the first event.
pub fn run_scenario(sc: &Value) -> (Vec<Value>, Option<String>) {
    let g = global();
    {
        let mut c = g.sim.core.lock();
        use rand::SeedableRng;
        c.rng = rand::rngs::StdRng::seed_from_u64(sc["seed"].as_u64().unwrap_or(1));
        c.fragment_size = sc["frag"].as_u64().unwrap_or(1344) as usize;
        c.log.clear();
        c.log_meta = sc["log_meta"].as_bool().unwrap_or(false);
        c.zero_delay_run = 0;
        c.epoch_ns = c.now_ns;
        c.drift_ns = sc["drift_ns"].as_i64().unwrap_or(0);
        c.strip_domain_id = sc["strip_domain_id"].as_bool().unwrap_or(false);
    }
    g.sim.core.log(json!({"ev": "Reset", "name": sc["name"], "seed": sc["seed"], "frag": sc["frag"], "cfg": sc["cfg"]}));
    let domain = sc["domain"].as_i64().unwrap_or(0) as i32;
    let steps = sc["steps"].as_array().cloned().unwrap_or_default();
    let max_steps = sc["max_steps"].as_u64().unwrap_or(3_000_000);
    let r = g.sim.run(
        async move {
            let mut w = World::new(domain);
            for st in steps.iter() {
                w.exec(st).await;
            }
            w.cleanup().await;
        },
        max_steps,
        3600 * NS,
    );
    let err = match r {
        Ok(()) => None,
        Err(e) => Some(format!("{e:?}")),
    };
    (g.sim.take_log(), err)
}
