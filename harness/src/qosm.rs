//! Qos.tla bound to the real entities through the async API in the simulation (C37): one local
//! participant owning the entity under test and one remote participant whose built-in readers
//! show what has been announced.
use crate::replay::Model;
use crate::scen::{KeyedData, err_name, global};
use crate::sim;
use dust_dds::builtin_topics::{
    ParticipantBuiltinTopicData, PublicationBuiltinTopicData, SubscriptionBuiltinTopicData, TopicBuiltinTopicData,
};
use dust_dds::dds_async::{
    data_reader::DataReaderAsync, data_writer::DataWriterAsync, domain_participant::DomainParticipantAsync,
    publisher::PublisherAsync, subscriber::SubscriberAsync, topic::TopicAsync,
};
use dust_dds::infrastructure::{
    error::DdsError,
    listener::NO_LISTENER,
    qos::{DataReaderQos, DataWriterQos, DomainParticipantQos, PublisherQos, QosKind, SubscriberQos, TopicQos},
    qos_policy::{
        DeadlineQosPolicy, EntityFactoryQosPolicy, HistoryQosPolicy, HistoryQosPolicyKind, Length, PartitionQosPolicy,
        PresentationQosPolicy, PresentationQosPolicyAccessScopeKind, ReliabilityQosPolicyKind, ResourceLimitsQosPolicy,
        XCDR_DATA_REPRESENTATION, XCDR2_DATA_REPRESENTATION,
    },
    sample_info::{ANY_INSTANCE_STATE, ANY_SAMPLE_STATE, ANY_VIEW_STATE},
    status::NO_STATUS,
    time::{Duration, DurationKind},
};
use serde_json::{Value, json};

enum Ent {
    None,
    Writer(DataWriterAsync<KeyedData>),
    Reader(DataReaderAsync<KeyedData>),
    Topic(TopicAsync),
    Publisher(PublisherAsync, DataWriterAsync<KeyedData>),
    Subscriber(SubscriberAsync, DataReaderAsync<KeyedData>),
    Participant,
}

pub struct QosModel {
    kind: String,
    p1: Option<DomainParticipantAsync>,
    p2: Option<DomainParticipantAsync>,
    ent: Ent,
    enabled: bool,
    topic: Option<TopicAsync>,
    /// the factories of a writer / reader (they hold the default QoS of the kind)
    parent_pub: Option<PublisherAsync>,
    parent_sub: Option<SubscriberAsync>,
}

fn run<T>(f: impl std::future::Future<Output = T>) -> T {
    match global().sim.run(f, 5_000_000, 3600 * sim::NS) {
        Ok(v) => v,
        Err(e) => panic!("simulation stalled: {e:?}"),
    }
}
async fn settle(ms: i64) {
    sim::sleep(&global().sim.core, ms * 1_000_000).await;
}

fn n(q: &Value, f: &str) -> i64 {
    q[f].as_i64().unwrap_or(0)
}
fn dur(s: i64) -> DurationKind {
    if s == 0 { DurationKind::Infinite } else { DurationKind::Finite(Duration::new(s as i32, 0)) }
}
fn undur(d: &DurationKind) -> i64 {
    match d {
        DurationKind::Infinite => 0,
        DurationKind::Finite(d) => if d.nanosec() == 0 { d.sec() as i64 } else { -1 },
    }
}
fn len(x: i64) -> Length {
    if x == 0 { Length::Unlimited } else { Length::Limited(x as i32) }
}
fn unlen(l: &Length) -> i64 {
    match l {
        Length::Unlimited => 0,
        Length::Limited(x) => *x as i64,
    }
}
fn hist(x: i64) -> HistoryQosPolicy {
    HistoryQosPolicy { kind: if x == 0 { HistoryQosPolicyKind::KeepAll } else { HistoryQosPolicyKind::KeepLast(x as u32) } }
}
fn unhist(h: &HistoryQosPolicy) -> i64 {
    match h.kind {
        HistoryQosPolicyKind::KeepAll => 0,
        HistoryQosPolicyKind::KeepLast(d) => d as i64,
    }
}
fn rel(x: i64) -> ReliabilityQosPolicyKind {
    if x == 0 { ReliabilityQosPolicyKind::BestEffort } else { ReliabilityQosPolicyKind::Reliable }
}
fn unrel(k: &ReliabilityQosPolicyKind) -> i64 {
    if *k == ReliabilityQosPolicyKind::BestEffort { 0 } else { 1 }
}
fn bytes(x: i64) -> Vec<u8> {
    if x == 0 { vec![] } else if x == 2 { (0..70_000usize).map(|k| (k % 251) as u8).collect() } else { vec![x as u8, 42] }
}
fn unbytes(v: &[u8]) -> i64 {
    if v.is_empty() { 0 } else if v.len() == 2 && v[1] == 42 { v[0] as i64 }
    else if v.len() == 70_000 && v.iter().enumerate().all(|(k, b)| *b == (k % 251) as u8) { 2 } else { -1 }
}
fn limits(q: &Value) -> ResourceLimitsQosPolicy {
    ResourceLimitsQosPolicy { max_samples: len(n(q, "ms")), max_samples_per_instance: len(n(q, "mspi")), ..Default::default() }
}
fn pres(x: i64) -> PresentationQosPolicy {
    if x == 0 { PresentationQosPolicy::default() } else {
        PresentationQosPolicy { access_scope: PresentationQosPolicyAccessScopeKind::Topic, coherent_access: true, ordered_access: false }
    }
}
fn unpres(p: &PresentationQosPolicy) -> i64 {
    if *p == PresentationQosPolicy::default() { 0 } else if *p == pres(1) { 1 } else { -1 }
}
fn part(x: i64) -> PartitionQosPolicy {
    PartitionQosPolicy { name: if x == 0 { vec![] } else { vec!["A".to_string()] } }
}
fn unpart(p: &PartitionQosPolicy) -> i64 {
    if p.name.is_empty() || p.name == vec![String::new()] { 0 } else if p.name == vec!["A".to_string()] { 1 } else { -1 }
}

fn wqos(q: &Value) -> DataWriterQos {
    let mut x = DataWriterQos::default();
    x.reliability.kind = rel(n(q, "rel"));
    x.history = hist(n(q, "hist"));
    x.resource_limits = limits(q);
    x.deadline = DeadlineQosPolicy { period: dur(n(q, "dl")) };
    x.user_data.value = bytes(n(q, "ud"));
    x.representation.value = match n(q, "nrep") { 0 => vec![], 1 => vec![XCDR_DATA_REPRESENTATION], _ => vec![XCDR_DATA_REPRESENTATION, XCDR2_DATA_REPRESENTATION] };
    x
}
fn abs(relv: i64, h: i64, mspi: i64, ms: i64, dl: i64, tbf: i64, nrep: i64, ud: i64, pr: i64, pa: i64) -> Value {
    json!({"rel": relv, "hist": h, "mspi": mspi, "ms": ms, "dl": dl, "tbf": tbf, "nrep": nrep, "ud": ud, "pres": pr, "part": pa})
}
fn unwqos(x: &DataWriterQos) -> Value {
    abs(unrel(&x.reliability.kind), unhist(&x.history), unlen(&x.resource_limits.max_samples_per_instance), unlen(&x.resource_limits.max_samples),
        undur(&x.deadline.period), 0, x.representation.value.len() as i64, unbytes(&x.user_data.value), 0, 0)
}
fn rqos(q: &Value) -> DataReaderQos {
    let mut x = DataReaderQos::default();
    x.reliability.kind = rel(n(q, "rel"));
    x.history = hist(n(q, "hist"));
    x.resource_limits = limits(q);
    x.deadline = DeadlineQosPolicy { period: dur(n(q, "dl")) };
    x.time_based_filter.minimum_separation = DurationKind::Finite(Duration::new(n(q, "tbf") as i32, 0));
    x.user_data.value = bytes(n(q, "ud"));
    x
}
fn unrqos(x: &DataReaderQos) -> Value {
    abs(unrel(&x.reliability.kind), unhist(&x.history), unlen(&x.resource_limits.max_samples_per_instance), unlen(&x.resource_limits.max_samples),
        undur(&x.deadline.period), undur(&x.time_based_filter.minimum_separation), 0, unbytes(&x.user_data.value), 0, 0)
}
fn tqos(q: &Value) -> TopicQos {
    let mut x = TopicQos::default();
    x.reliability.kind = rel(n(q, "rel"));
    x.history = hist(n(q, "hist"));
    x.resource_limits = limits(q);
    x.deadline = DeadlineQosPolicy { period: dur(n(q, "dl")) };
    x.topic_data.value = bytes(n(q, "ud"));
    x
}
fn untqos(x: &TopicQos) -> Value {
    abs(unrel(&x.reliability.kind), unhist(&x.history), unlen(&x.resource_limits.max_samples_per_instance), unlen(&x.resource_limits.max_samples),
        undur(&x.deadline.period), 0, 0, unbytes(&x.topic_data.value), 0, 0)
}
fn pqos(q: &Value) -> PublisherQos {
    let mut x = PublisherQos::default();
    x.presentation = pres(n(q, "pres"));
    x.partition = part(n(q, "part"));
    x.group_data.value = bytes(n(q, "ud"));
    x
}
fn unpqos(x: &PublisherQos) -> Value {
    abs(0, 1, 0, 0, 0, 0, 0, unbytes(&x.group_data.value), unpres(&x.presentation), unpart(&x.partition))
}
fn sqos(q: &Value) -> SubscriberQos {
    let mut x = SubscriberQos::default();
    x.presentation = pres(n(q, "pres"));
    x.partition = part(n(q, "part"));
    x.group_data.value = bytes(n(q, "ud"));
    x
}
fn unsqos(x: &SubscriberQos) -> Value {
    abs(0, 1, 0, 0, 0, 0, 0, unbytes(&x.group_data.value), unpres(&x.presentation), unpart(&x.partition))
}
fn dqos(q: &Value) -> DomainParticipantQos {
    let mut x = DomainParticipantQos::default();
    x.user_data.value = bytes(n(q, "ud"));
    x
}

fn rn<T>(r: &Result<T, DdsError>) -> Value {
    match r {
        Ok(_) => json!({"res": "Ok"}),
        Err(e) => json!({"res": err_name(e)}),
    }
}

impl QosModel {
    pub fn new(cfg: &Value) -> Self {
        let kind = cfg["Kind"].as_str().expect("Kind").to_string();
        let (p1, p2, topic) = run(async {
            let p2 = global().factory.create_participant(0, QosKind::Default, NO_LISTENER, NO_STATUS).await.expect("participant");
            let p1 = global().factory.create_participant(0, QosKind::Default, NO_LISTENER, NO_STATUS).await.expect("participant");
            let topic = if kind == "topic" || kind == "participant" { None } else {
                Some(p1.create_topic::<KeyedData>("Q", "KeyedData", QosKind::Default, NO_LISTENER, NO_STATUS).await.expect("topic"))
            };
            settle(1000).await;
            (p1, p2, topic)
        });
        let (parent_pub, parent_sub) = run(async {
            (if kind == "writer" { Some(p1.create_publisher(QosKind::Default, NO_LISTENER, NO_STATUS).await.expect("publisher")) } else { None },
             if kind == "reader" { Some(p1.create_subscriber(QosKind::Default, NO_LISTENER, NO_STATUS).await.expect("subscriber")) } else { None })
        });
        let is_part = kind == "participant";
        QosModel { kind, p1: Some(p1), p2: Some(p2), ent: if is_part { Ent::Participant } else { Ent::None }, enabled: is_part, topic, parent_pub, parent_sub }
    }

    /// `q` = None: create with QosKind::Default (the factory default of the kind)
    async fn create(&mut self, q: Option<&Value>, en: bool) -> Result<(), DdsError> {
        let p1 = self.p1.clone().unwrap();
        let fac = EntityFactoryQosPolicy { autoenable_created_entities: en };
        match self.kind.as_str() {
            "writer" => {
                let t = self.topic.clone().unwrap();
                let pb = self.parent_pub.clone().unwrap();
                pb.set_qos(QosKind::Specific(PublisherQos { entity_factory: fac, ..Default::default() })).await?;
                let k = match q { Some(q) => QosKind::Specific(wqos(q)), None => QosKind::Default };
                let w = pb.create_datawriter::<KeyedData>(&t, k, NO_LISTENER, NO_STATUS).await?;
                self.ent = Ent::Writer(w);
            }
            "reader" => {
                let t = self.topic.clone().unwrap();
                let sb = self.parent_sub.clone().unwrap();
                sb.set_qos(QosKind::Specific(SubscriberQos { entity_factory: fac, ..Default::default() })).await?;
                let k = match q { Some(q) => QosKind::Specific(rqos(q)), None => QosKind::Default };
                let r = sb.create_datareader::<KeyedData>(&t, k, NO_LISTENER, NO_STATUS).await?;
                self.ent = Ent::Reader(r);
            }
            "topic" => {
                p1.set_qos(QosKind::Specific(DomainParticipantQos { entity_factory: fac, ..Default::default() })).await?;
                let k = match q { Some(q) => QosKind::Specific(tqos(q)), None => QosKind::Default };
                let r = p1.create_topic::<KeyedData>("Q", "KeyedData", k, NO_LISTENER, NO_STATUS).await;
                p1.set_qos(QosKind::Default).await?;
                self.ent = Ent::Topic(r?);
            }
            "publisher" => {
                let t = self.topic.clone().unwrap();
                let k = match q { Some(q) => QosKind::Specific(pqos(q)), None => QosKind::Default };
                let pb = p1.create_publisher(k, NO_LISTENER, NO_STATUS).await?;
                let w = pb.create_datawriter::<KeyedData>(&t, QosKind::Default, NO_LISTENER, NO_STATUS).await?;
                self.ent = Ent::Publisher(pb, w);
            }
            "subscriber" => {
                let t = self.topic.clone().unwrap();
                let k = match q { Some(q) => QosKind::Specific(sqos(q)), None => QosKind::Default };
                let sb = p1.create_subscriber(k, NO_LISTENER, NO_STATUS).await?;
                let r = sb.create_datareader::<KeyedData>(&t, QosKind::Default, NO_LISTENER, NO_STATUS).await?;
                self.ent = Ent::Subscriber(sb, r);
            }
            other => panic!("create for kind {other}"),
        }
        self.enabled = en;
        Ok(())
    }

    async fn set_default(&self, q: Option<&Value>) -> Result<(), DdsError> {
        let p1 = self.p1.clone().unwrap();
        match self.kind.as_str() {
            "writer" => self.parent_pub.as_ref().unwrap().set_default_datawriter_qos(match q { Some(q) => QosKind::Specific(wqos(q)), None => QosKind::Default }).await,
            "reader" => self.parent_sub.as_ref().unwrap().set_default_datareader_qos(match q { Some(q) => QosKind::Specific(rqos(q)), None => QosKind::Default }).await,
            "topic" => p1.set_default_topic_qos(match q { Some(q) => QosKind::Specific(tqos(q)), None => QosKind::Default }).await,
            "publisher" => p1.set_default_publisher_qos(match q { Some(q) => QosKind::Specific(pqos(q)), None => QosKind::Default }).await,
            "subscriber" => p1.set_default_subscriber_qos(match q { Some(q) => QosKind::Specific(sqos(q)), None => QosKind::Default }).await,
            other => panic!("set_default for kind {other}"),
        }
    }

    async fn get_default(&self) -> Value {
        let p1 = self.p1.clone().unwrap();
        let err = json!({"error": "get_default"});
        match self.kind.as_str() {
            "writer" => self.parent_pub.as_ref().unwrap().get_default_datawriter_qos().await.map(|x| unwqos(&x)).unwrap_or(err),
            "reader" => self.parent_sub.as_ref().unwrap().get_default_datareader_qos().await.map(|x| unrqos(&x)).unwrap_or(err),
            "topic" => p1.get_default_topic_qos().await.map(|x| untqos(&x)).unwrap_or(err),
            "publisher" => p1.get_default_publisher_qos().await.map(|x| unpqos(&x)).unwrap_or(err),
            "subscriber" => p1.get_default_subscriber_qos().await.map(|x| unsqos(&x)).unwrap_or(err),
            // the participant's own factory (DomainParticipantFactory) is shared by the whole process and not touched here
            _ => abs(0, 1, 0, 0, 0, 0, 0, 0, 0, 0),
        }
    }

    async fn observe(&self) -> Value {
        let none = json!({"none": 0});
        let p2 = self.p2.clone().unwrap();
        let bs = p2.get_builtin_subscriber();
        match &self.ent {
            Ent::None => none,
            Ent::Writer(w) | Ent::Publisher(_, w) => {
                let key: [u8; 16] = w.get_instance_handle().into();
                let Ok(Some(r)) = bs.lookup_datareader::<PublicationBuiltinTopicData>("DCPSPublication").await else { return json!({"error": "no DCPSPublication reader"}) };
                let l = r.read(1000, ANY_SAMPLE_STATE, ANY_VIEW_STATE, ANY_INSTANCE_STATE).await.unwrap_or_default();
                match l.iter().filter_map(|s| s.data.as_ref()).filter(|d| d.key().value == key).last() {
                    None => none,
                    Some(d) => if matches!(self.ent, Ent::Writer(_)) {
                        json!({"rel": unrel(&d.reliability().kind), "dl": undur(&d.deadline().period), "ud": unbytes(&d.user_data().value)})
                    } else {
                        json!({"pres": unpres(d.presentation()), "part": unpart(d.partition()), "ud": unbytes(&d.group_data().value)})
                    },
                }
            }
            Ent::Reader(rd) | Ent::Subscriber(_, rd) => {
                let key: [u8; 16] = rd.get_instance_handle().into();
                let Ok(Some(r)) = bs.lookup_datareader::<SubscriptionBuiltinTopicData>("DCPSSubscription").await else { return json!({"error": "no DCPSSubscription reader"}) };
                let l = r.read(1000, ANY_SAMPLE_STATE, ANY_VIEW_STATE, ANY_INSTANCE_STATE).await.unwrap_or_default();
                match l.iter().filter_map(|s| s.data.as_ref()).filter(|d| d.key().value == key).last() {
                    None => none,
                    Some(d) => if matches!(self.ent, Ent::Reader(_)) {
                        json!({"rel": unrel(&d.reliability().kind), "dl": undur(&d.deadline().period),
                               "tbf": undur(&d.time_based_filter().minimum_separation), "ud": unbytes(&d.user_data().value)})
                    } else {
                        json!({"pres": unpres(d.presentation()), "part": unpart(d.partition()), "ud": unbytes(&d.group_data().value)})
                    },
                }
            }
            Ent::Topic(_) => {
                let Ok(Some(r)) = bs.lookup_datareader::<TopicBuiltinTopicData>("DCPSTopic").await else { return json!({"error": "no DCPSTopic reader"}) };
                let l = r.read(1000, ANY_SAMPLE_STATE, ANY_VIEW_STATE, ANY_INSTANCE_STATE).await.unwrap_or_default();
                match l.iter().filter_map(|s| s.data.as_ref()).filter(|d| d.name() == "Q").last() {
                    None => none,
                    Some(d) => json!({"rel": unrel(&d.reliability().kind), "dl": undur(&d.deadline().period), "hist": unhist(d.history()),
                                      "mspi": unlen(&d.resource_limits().max_samples_per_instance), "ms": unlen(&d.resource_limits().max_samples),
                                      "ud": unbytes(&d.topic_data().value)}),
                }
            }
            Ent::Participant => {
                let key: [u8; 16] = self.p1.as_ref().unwrap().get_instance_handle().into();
                let Ok(Some(r)) = bs.lookup_datareader::<ParticipantBuiltinTopicData>("DCPSParticipant").await else { return json!({"error": "no DCPSParticipant reader"}) };
                let l = r.read(1000, ANY_SAMPLE_STATE, ANY_VIEW_STATE, ANY_INSTANCE_STATE).await.unwrap_or_default();
                match l.iter().filter_map(|s| s.data.as_ref()).filter(|d| d.key().value == key).last() {
                    None => none,
                    Some(d) => json!({"ud": unbytes(&d.user_data().value)}),
                }
            }
        }
    }
}

impl Drop for QosModel {
    fn drop(&mut self) {
        let (p1, p2) = (self.p1.take(), self.p2.take());
        let _ = std::panic::catch_unwind(std::panic::AssertUnwindSafe(|| {
            run(async {
                for p in [p1, p2].into_iter().flatten() {
                    let _ = p.delete_contained_entities().await;
                    let _ = global().factory.delete_participant(&p).await;
                }
            })
        }));
    }
}

impl Model for QosModel {
    fn apply(&mut self, op: &Value) -> Value {
        let a = op["a"].clone();
        let q = a["q"].clone();
        match op["op"].as_str().unwrap() {
            "Create" => {
                let en = a["en"].as_bool().unwrap();
                let r = run(async {
                    let r = self.create(Some(&q), en).await;
                    settle(500).await;
                    r
                });
                rn(&r)
            }
            "CreateDefault" => {
                let en = a["en"].as_bool().unwrap();
                let r = run(async {
                    let r = self.create(None, en).await;
                    settle(500).await;
                    r
                });
                rn(&r)
            }
            "SetDefault" => rn(&run(self.set_default(Some(&q)))),
            "ResetDefault" => rn(&run(self.set_default(None))),
            "SetQos" => {
                let r = run(async {
                    let r = match &self.ent {
                        Ent::Writer(w) => w.set_qos(QosKind::Specific(wqos(&q))).await,
                        Ent::Reader(r) => r.set_qos(QosKind::Specific(rqos(&q))).await,
                        Ent::Topic(t) => t.set_qos(QosKind::Specific(tqos(&q))).await,
                        Ent::Publisher(p, _) => p.set_qos(QosKind::Specific(pqos(&q))).await,
                        Ent::Subscriber(s, _) => s.set_qos(QosKind::Specific(sqos(&q))).await,
                        Ent::Participant => self.p1.as_ref().unwrap().set_qos(QosKind::Specific(dqos(&q))).await,
                        Ent::None => panic!("no entity"),
                    };
                    settle(500).await;
                    r
                });
                rn(&r)
            }
            "SetQosDefault" => {
                let r = run(async {
                    let r = match &self.ent {
                        Ent::Writer(w) => w.set_qos(QosKind::Default).await,
                        Ent::Reader(r) => r.set_qos(QosKind::Default).await,
                        Ent::Topic(t) => t.set_qos(QosKind::Default).await,
                        Ent::Publisher(p, _) => p.set_qos(QosKind::Default).await,
                        Ent::Subscriber(s, _) => s.set_qos(QosKind::Default).await,
                        Ent::Participant => self.p1.as_ref().unwrap().set_qos(QosKind::Default).await,
                        Ent::None => panic!("no entity"),
                    };
                    settle(500).await;
                    r
                });
                rn(&r)
            }
            "Enable" => {
                let r = run(async {
                    let r = match &self.ent {
                        Ent::Writer(w) => w.enable().await,
                        Ent::Reader(r) => r.enable().await,
                        Ent::Topic(t) => t.enable().await,
                        _ => panic!("enable for this kind"),
                    };
                    settle(500).await;
                    r
                });
                if r.is_ok() {
                    self.enabled = true;
                }
                rn(&r)
            }
            other => panic!("unknown op {other}"),
        }
    }

    fn project(&self) -> Value {
        let (qos, ann) = run(async {
            let qos = match &self.ent {
                Ent::None => json!({"none": 0}),
                Ent::Writer(w) => w.get_qos().await.map(|x| unwqos(&x)).unwrap_or(json!({"error": "get_qos"})),
                Ent::Reader(r) => r.get_qos().await.map(|x| unrqos(&x)).unwrap_or(json!({"error": "get_qos"})),
                Ent::Topic(t) => t.get_qos().await.map(|x| untqos(&x)).unwrap_or(json!({"error": "get_qos"})),
                Ent::Publisher(p, _) => p.get_qos().await.map(|x| unpqos(&x)).unwrap_or(json!({"error": "get_qos"})),
                Ent::Subscriber(s, _) => s.get_qos().await.map(|x| unsqos(&x)).unwrap_or(json!({"error": "get_qos"})),
                Ent::Participant => self.p1.as_ref().unwrap().get_qos().await
                    .map(|x| abs(0, 1, 0, 0, 0, 0, 0, unbytes(&x.user_data.value), 0, 0)).unwrap_or(json!({"error": "get_qos"})),
            };
            (qos, self.observe().await)
        });
        let dflt = run(self.get_default());
        json!({"ex": !matches!(self.ent, Ent::None), "en": self.enabled, "qos": qos, "ann": ann, "dflt": dflt})
    }
}
