//! Adversarial RTPS datagrams (Adversary.tla, C06): byte-level encoder for message descriptions whose
//! fields may hold any value, valid or not. Nothing of the library's encoder is used.
use serde_json::Value;

pub struct AdvCtx {
    pub known_prefix: [u8; 12],  // a participant the victim has discovered
    pub victim_prefix: [u8; 12],
    pub peer_writer: [u8; 4],    // writer of the known participant, matched with victim_reader
    pub peer_reader: [u8; 4],    // reader of the known participant, matched with victim_writer
    pub victim_reader: [u8; 4],
    pub victim_writer: [u8; 4],
    pub next_sn: i64,            // next sequence number the victim's reader expects from peer_writer
}

struct W {
    b: Vec<u8>,
    le: bool,
}
impl W {
    fn u16(&mut self, v: u16) { if self.le { self.b.extend_from_slice(&v.to_le_bytes()) } else { self.b.extend_from_slice(&v.to_be_bytes()) } }
    fn u32(&mut self, v: u32) { if self.le { self.b.extend_from_slice(&v.to_le_bytes()) } else { self.b.extend_from_slice(&v.to_be_bytes()) } }
    fn i32(&mut self, v: i32) { self.u32(v as u32) }
    fn sn(&mut self, v: i64) { self.i32((v >> 32) as i32); self.u32(v as u32); }
    fn raw(&mut self, v: &[u8]) { self.b.extend_from_slice(v) }
}

fn sn_of(v: &Value, ctx: &AdvCtx) -> i64 {
    match v.as_str().unwrap_or("ONE") {
        "ZERO" => 0,
        "ONE" => 1,
        "TWO" => 2,
        "NEXT" => ctx.next_sn,
        "NEXT1" => ctx.next_sn + 1,
        "NEXT2" => ctx.next_sn + 2,
        "FAR" => ctx.next_sn + 1000,
        "BIG" => 1i64 << 32,
        "MAX" => i64::MAX,
        "NEG" => -1,
        "MIN" => i64::MIN,
        other => other.parse().unwrap_or(1),
    }
}
fn u32_of(v: &Value) -> u32 {
    match v.as_str().unwrap_or("ONE") {
        "ZERO" => 0,
        "ONE" => 1,
        "TWO" => 2,
        "THREE" => 3,
        "N31" => 31,
        "N32" => 32,
        "N33" => 33,
        "N256" => 256,
        "N257" => 257,
        "N1000" => 1000,
        "MAX16" => 65535,
        "BIG" => 1 << 20,
        "MAX31" => i32::MAX as u32,
        "MAX32" => u32::MAX,
        other => other.parse().unwrap_or(1),
    }
}

const UNKNOWN: [u8; 4] = [0, 0, 0, 0];
fn ids(target: &str, ctx: &AdvCtx) -> ([u8; 4], [u8; 4]) {
    // (readerId, writerId) for writer -> reader submessages
    match target {
        "user" => (ctx.victim_reader, ctx.peer_writer),
        "user_any_reader" => (UNKNOWN, ctx.peer_writer),
        "user_unknown_writer" => (ctx.victim_reader, [0x12, 0x34, 0x56, 0x02]),
        "sedp_pub" => ([0, 0, 3, 0xc7], [0, 0, 3, 0xc2]),
        "sedp_sub" => ([0, 0, 4, 0xc7], [0, 0, 4, 0xc2]),
        "sedp_topic" => ([0, 0, 2, 0xc7], [0, 0, 2, 0xc2]),
        "spdp" => ([0, 1, 0, 0xc7], [0, 1, 0, 0xc2]),
        "liveliness" => ([0, 2, 0, 0xc7], [0, 2, 0, 0xc2]),
        "tl_req" => ([0, 3, 0, 0xc4], [0, 3, 0, 0xc3]),
        "tl_rep" => ([0, 3, 1, 0xc4], [0, 3, 1, 0xc3]),
        // reader -> writer direction
        "to_user_writer" => (ctx.peer_reader, ctx.victim_writer),
        "to_user_writer_unknown_reader" => ([0x65, 0x43, 0x21, 0x07], ctx.victim_writer),
        "to_sedp_pub_writer" => ([0, 0, 3, 0xc7], [0, 0, 3, 0xc2]),
        "to_unknown_writer" => (ctx.peer_reader, [0x12, 0x34, 0x56, 0x02]),
        _ => (UNKNOWN, UNKNOWN),
    }
}

fn bitmap(w: &mut W, num_bits: u32, mode: &str) {
    w.u32(num_bits);
    let words = ((num_bits as u64 + 31) / 32).min(64) as usize;
    let n = match mode {
        "short" => words.saturating_sub(1),
        "none" => 0,
        "long" => words + 3,
        _ => words,
    };
    for k in 0..n {
        w.u32(if mode == "zeros" { 0 } else if k % 2 == 0 { 0xffff_ffff } else { 0xa5a5_a5a5 });
    }
}

fn inline_qos(w: &mut W, mode: &str) {
    match mode {
        "keyhash" => { w.u16(0x0070); w.u16(16); w.raw(&[1, 0, 0, 0, 0, 0, 0, 0, 0, 0, 0, 0, 0, 0, 0, 0]); w.u16(1); w.u16(0); }
        "disposed" => { w.u16(0x0071); w.u16(4); w.raw(&[0, 0, 0, 1]); w.u16(1); w.u16(0); }
        "garbage" => { w.raw(&[0xde, 0xad, 0xbe, 0xef, 0x01, 0x02, 0x03, 0x04, 0xff, 0xff, 0xff, 0xff]); }
        "unterminated" => { w.u16(0x0070); w.u16(16); w.raw(&[9; 16]); }
        "hugelen" => { w.u16(0x0070); w.u16(0xfffc); w.raw(&[7; 8]); }
        "zerolen_params" => { for _ in 0..40 { w.u16(0x8001); w.u16(0); } w.u16(1); w.u16(0); }
        "oddlen" => { w.u16(0x002c); w.u16(3); w.raw(&[1, 2, 3]); w.u16(1); w.u16(0); }
        _ => {}
    }
}

fn payload(w: &mut W, mode: &str, target: &str, ctx: &AdvCtx) {
    let user = target.starts_with("user");
    match mode {
        "empty" => {}
        "short_header" => w.raw(&[0, 1]),
        "bad_encap" => w.raw(&[0xff, 0xff, 0, 0, 1, 2, 3, 4]),
        "garbage" => w.raw(&[0x00, 0x01, 0x00, 0x00, 0xff, 0xfe, 0xfd, 0xfc, 0x80, 0x00, 0x00, 0x01, 0x7f, 0xff, 0xff, 0xff, 0x11, 0x22]),
        "huge_seq" => {
            if user {
                // KeyedData {id, w, seq, data}: CDR_LE, sequence length 0xffffffff
                w.raw(&[0x00, 0x01, 0x00, 0x00, 1, 1, 0, 0, 5, 0, 0, 0, 0xff, 0xff, 0xff, 0xff, 1, 2, 3]);
            } else {
                // PL_CDR_LE: PID_USER_DATA (0x2c) with a sequence length far beyond the parameter
                w.raw(&[0x00, 0x03, 0x00, 0x00, 0x2c, 0x00, 0x08, 0x00, 0xff, 0xff, 0xff, 0x7f, 1, 2, 3, 4, 0x01, 0x00, 0x00, 0x00]);
            }
        }
        "huge_string" => {
            // PL_CDR_LE: PID_TOPIC_NAME (0x05) with string length 0xfffffff0
            w.raw(&[0x00, 0x03, 0x00, 0x00, 0x05, 0x00, 0x08, 0x00, 0xf0, 0xff, 0xff, 0xff, b'A', b'B', 0, 0, 0x01, 0x00, 0x00, 0x00]);
        }
        "pl_no_sentinel" => w.raw(&[0x00, 0x03, 0x00, 0x00, 0x15, 0x00, 0x04, 0x00, 2, 4, 0, 0]),
        "pl_only_sentinel" => w.raw(&[0x00, 0x03, 0x00, 0x00, 0x01, 0x00, 0x00, 0x00]),
        "pl_param_overrun" => w.raw(&[0x00, 0x03, 0x00, 0x00, 0x50, 0x00, 0xf0, 0xff, 1, 2, 3, 4]),
        "pl_spoofed_guid" => {
            // participant / endpoint data whose GUID claims to be the victim itself
            w.raw(&[0x00, 0x03, 0x00, 0x00]);
            for pid in [0x50u16, 0x5a] {
                w.raw(&pid.to_le_bytes()); w.raw(&16u16.to_le_bytes()); w.raw(&ctx.victim_prefix); w.raw(&[0, 0, 1, 0xc1]);
            }
            w.raw(&[0x01, 0x00, 0x00, 0x00]);
        }
        "pl_zero_lease" => {
            w.raw(&[0x00, 0x03, 0x00, 0x00]);
            w.raw(&0x50u16.to_le_bytes()); w.raw(&16u16.to_le_bytes()); w.raw(&[0xaa; 12]); w.raw(&[0, 0, 1, 0xc1]);
            w.raw(&0x02u16.to_le_bytes()); w.raw(&8u16.to_le_bytes()); w.raw(&[0; 8]);
            w.raw(&0x58u16.to_le_bytes()); w.raw(&4u16.to_le_bytes()); w.raw(&0xffff_ffffu32.to_le_bytes());
            w.raw(&[0x01, 0x00, 0x00, 0x00]);
        }
        _ => {
            // "valid": a well formed KeyedData sample / a minimal parameter list
            if user {
                w.raw(&[0x00, 0x01, 0x00, 0x00, 1, 77, 0, 0, 9, 0, 0, 0, 4, 0, 0, 0, 1, 2, 3, 4]);
            } else {
                w.raw(&[0x00, 0x03, 0x00, 0x00, 0x01, 0x00, 0x00, 0x00]);
            }
        }
    }
}

fn submessage(out: &mut Vec<u8>, s: &Value, ctx: &AdvCtx, last: bool) {
    let le = s["endian"].as_str().unwrap_or("LE") == "LE";
    let kind = s["k"].as_str().unwrap_or("PAD");
    let target = s["target"].as_str().unwrap_or("user");
    let (rid, wid) = ids(target, ctx);
    let mut w = W { b: Vec::new(), le };
    let mut flags: u8 = if le { 1 } else { 0 };
    let id: u8 = match kind {
        "PAD" => 0x01,
        "ACKNACK" => {
            w.raw(&rid); w.raw(&wid);
            w.sn(sn_of(&s["base"], ctx)); bitmap(&mut w, u32_of(&s["bits"]), s["bitmap"].as_str().unwrap_or("ok"));
            w.u32(u32_of(&s["count"]));
            if s["final"].as_str().map(|x| x == "T").unwrap_or(false) { flags |= 2; }
            0x06
        }
        "HEARTBEAT" => {
            w.raw(&rid); w.raw(&wid);
            w.sn(sn_of(&s["first"], ctx)); w.sn(sn_of(&s["last"], ctx)); w.u32(u32_of(&s["count"]));
            if s["final"].as_str().map(|x| x == "T").unwrap_or(false) { flags |= 2; }
            if s["liveliness"].as_str().map(|x| x == "T").unwrap_or(false) { flags |= 4; }
            0x07
        }
        "GAP" => {
            w.raw(&rid); w.raw(&wid);
            w.sn(sn_of(&s["start"], ctx)); w.sn(sn_of(&s["base"], ctx)); bitmap(&mut w, u32_of(&s["bits"]), s["bitmap"].as_str().unwrap_or("ok"));
            0x08
        }
        "INFO_TS" => {
            if s["invalidate"].as_str().map(|x| x == "T").unwrap_or(false) { flags |= 2; } else { w.u32(u32_of(&s["sec"])); w.u32(u32_of(&s["frac"])); }
            0x09
        }
        "INFO_SRC" => { w.u32(0); w.raw(&[2, 4, 1, 0x14]); w.raw(&[0x55; 12]); 0x0c }
        "INFO_REPLY_IP4" => { w.u32(0x0a00_0001); w.u16(7400); 0x0d }
        "INFO_DST" => {
            match s["dst"].as_str().unwrap_or("victim") { "victim" => w.raw(&ctx.victim_prefix), "other" => w.raw(&[0x77; 12]), _ => w.raw(&[0; 12]) }
            0x0e
        }
        "INFO_REPLY" => {
            let n = u32_of(&s["locators"]);
            w.u32(n);
            for _ in 0..n.min(3) { w.i32(1); w.u32(7400); w.raw(&[0, 0, 0, 0, 0, 0, 0, 0, 0, 0, 0, 0, 10, 0, 0, 9]); }
            if s["multicast"].as_str().map(|x| x == "T").unwrap_or(false) { flags |= 2; w.u32(0); }
            0x0f
        }
        "NACK_FRAG" => {
            w.raw(&rid); w.raw(&wid);
            w.sn(sn_of(&s["sn"], ctx)); w.u32(u32_of(&s["base"])); bitmap(&mut w, u32_of(&s["bits"]), s["bitmap"].as_str().unwrap_or("ok"));
            w.u32(u32_of(&s["count"]));
            0x12
        }
        "HEARTBEAT_FRAG" => {
            w.raw(&rid); w.raw(&wid);
            w.sn(sn_of(&s["sn"], ctx)); w.u32(u32_of(&s["lastfrag"])); w.u32(u32_of(&s["count"]));
            0x13
        }
        "DATA" => {
            let iq = s["iq"].as_str().unwrap_or("none");
            let pl = s["payload"].as_str().unwrap_or("valid");
            w.u16(0);
            w.u16(match s["otq"].as_str().unwrap_or("ok") { "ok" => 16, "zero" => 0, "big" => 0xfff0, _ => 12 });
            w.raw(&rid); w.raw(&wid); w.sn(sn_of(&s["sn"], ctx));
            if iq != "none" { flags |= 2; inline_qos(&mut w, iq); }
            match s["dk"].as_str().unwrap_or("data") { "data" => flags |= 4, "key" => flags |= 8, "both" => flags |= 12, _ => {} }
            if s["dk"].as_str().unwrap_or("data") != "neither" { payload(&mut w, pl, target, ctx); }
            0x15
        }
        "DATA_FRAG" => {
            let iq = s["iq"].as_str().unwrap_or("none");
            w.u16(0); w.u16(28);
            w.raw(&rid); w.raw(&wid); w.sn(sn_of(&s["sn"], ctx));
            w.u32(u32_of(&s["fstart"])); w.u16(u32_of(&s["fcount"]) as u16); w.u16(u32_of(&s["fsize"]) as u16); w.u32(u32_of(&s["ssize"]));
            if iq != "none" { flags |= 2; inline_qos(&mut w, iq); }
            let n = match s["fbytes"].as_str().unwrap_or("match") { "none" => 0usize, "few" => 3, "many" => 5000, _ => (u32_of(&s["fsize"]) as usize).min(2000) };
            w.raw(&vec![0x5a; n]);
            0x16
        }
        "UNKNOWN" => { w.raw(&[1, 2, 3, 4, 5, 6, 7, 8]); 0x7e }
        "VENDOR" => { w.raw(&[1, 2, 3, 4]); 0x80 }
        _ => 0x01,
    };
    // pad the body to a multiple of 4 unless an odd length is requested
    let lenmode = s["len"].as_str().unwrap_or("ok");
    if lenmode != "odd" { while w.b.len() % 4 != 0 { w.b.push(0); } }
    let body_len = w.b.len();
    let declared: u16 = match lenmode {
        "zero" => 0,
        "short" => (body_len as u16).saturating_sub(8),
        "tiny" => 4,
        "long" => (body_len as u16).saturating_add(400),
        "max" => 0xffff,
        "odd" => (body_len as u16) | 1,
        _ => if last && s["lastzero"].as_str().map(|x| x == "T").unwrap_or(false) { 0 } else { body_len as u16 },
    };
    out.push(id);
    out.push(flags | (s["xflags"].as_u64().unwrap_or(0) as u8));
    if le { out.extend_from_slice(&declared.to_le_bytes()) } else { out.extend_from_slice(&declared.to_be_bytes()) }
    out.extend_from_slice(&w.b);
}

pub fn build(msg: &Value, ctx: &AdvCtx) -> Vec<u8> {
    let mut out = Vec::new();
    match msg["hdr"].as_str().unwrap_or("ok") {
        "bad_magic" => out.extend_from_slice(b"RTPX"),
        _ => out.extend_from_slice(b"RTPS"),
    }
    match msg["hdr"].as_str().unwrap_or("ok") {
        "old_version" => out.extend_from_slice(&[1, 0]),
        "future_version" => out.extend_from_slice(&[9, 9]),
        _ => out.extend_from_slice(&[2, 4]),
    }
    out.extend_from_slice(&[1, 0x14]);
    match msg["src"].as_str().unwrap_or("known") {
        "known" => out.extend_from_slice(&ctx.known_prefix),
        "self" => out.extend_from_slice(&ctx.victim_prefix),
        "zero" => out.extend_from_slice(&[0; 12]),
        _ => out.extend_from_slice(&[0xab, 0xcd, 1, 2, 3, 4, 5, 6, 7, 8, 9, 10]),
    }
    if msg["hdr"].as_str() == Some("truncated") {
        out.truncate(11);
        return out;
    }
    let subs = msg["subs"].as_array().cloned().unwrap_or_default();
    let n = subs.len();
    for (k, s) in subs.iter().enumerate() {
        submessage(&mut out, s, ctx, k + 1 == n);
    }
    if let Some(t) = msg["truncate"].as_u64() {
        let keep = out.len().saturating_sub(t as usize).max(20);
        out.truncate(keep);
    }
    out
}
