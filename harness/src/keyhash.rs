//! KeyHash.tla cases on the real instance-handle computation (C11, C12). The Rust types below are the
//! types `Types` of MC_KeyHash.tla (key members in the same order), with additional non-key members.
use dust_dds::infrastructure::type_support::DdsType;
use dust_dds::xtypes::type_support::TypeSupport;
use dust_dds::verif::get_instance_handle_from_dynamic_data;
use serde_json::{Value, json};
use std::collections::BTreeMap;

#[derive(DdsType, Debug, Clone)] pub struct T1 { #[dust_dds(key)] pub a: u8, pub x: u32, pub y: String }
#[derive(DdsType, Debug, Clone)] pub struct T2 { pub x: u8, #[dust_dds(key)] pub a: i32, #[dust_dds(key)] pub b: u16 }
#[derive(DdsType, Debug, Clone)] pub struct T3 { #[dust_dds(key)] pub s: String, pub x: u8 }
#[derive(DdsType, Debug, Clone)] pub struct T4 { #[dust_dds(key)] pub a: u8, pub x: Vec<u8>, #[dust_dds(key)] pub s: String }
#[derive(DdsType, Debug, Clone)] pub struct Inner5 { #[dust_dds(key)] pub id: u16, pub y: u8 }
#[derive(DdsType, Debug, Clone)] pub struct T5 { pub inner: Inner5, #[dust_dds(key)] pub b: u8 }
#[derive(DdsType, Debug, Clone)] pub struct Key6 { pub a: u8, pub b: i32 }
#[derive(DdsType, Debug, Clone)] pub struct T6 { #[dust_dds(key)] pub k: Key6, pub x: u16 }
#[derive(DdsType, Debug, Clone)] pub struct T7 { #[dust_dds(key)] pub a: i32, #[dust_dds(key)] pub b: i32, #[dust_dds(key)] pub c: i32, #[dust_dds(key)] pub d: i32, #[dust_dds(key)] pub e: u8, pub x: u8 }
#[derive(DdsType, Debug, Clone)] pub struct T8 { #[dust_dds(key)] pub a: i32, #[dust_dds(key)] pub b: i32, pub x: u64, #[dust_dds(key)] pub c: i32, #[dust_dds(key)] pub d: i32 }
#[derive(DdsType, Debug, Clone)] pub struct T9 { #[dust_dds(key)] pub a: u16, #[dust_dds(key)] pub b: u16, #[dust_dds(key)] pub c: u16, #[dust_dds(key)] pub d: u16, #[dust_dds(key)] pub e: u16,
                                                  #[dust_dds(key)] pub f: u16, #[dust_dds(key)] pub g: u16, #[dust_dds(key)] pub h: u16, #[dust_dds(key)] pub i: u8 }
#[derive(DdsType, Debug, Clone)] pub struct T10 { #[dust_dds(key)] pub a: u8, #[dust_dds(key)] pub b: u16, pub x: String, #[dust_dds(key)] pub c: u8, #[dust_dds(key)] pub d: i32, #[dust_dds(key)] pub e: u8 }
#[derive(DdsType, Debug, Clone)] pub struct T11 { pub inner: Inner5, pub x: Vec<u8> }
#[derive(DdsType, Debug, Clone)] pub struct T12 { pub x: Vec<u8>, #[dust_dds(key)] pub id: i32 }

fn s(v: &Value) -> String { String::from_utf8(v.as_array().unwrap().iter().map(|x| x.as_u64().unwrap() as u8).collect()).unwrap() }
fn n(v: &Value) -> i64 { v.as_i64().unwrap() }

/// the handle of the sample of type `t` with key `v`; `alt` varies the members that are not part of the key
pub fn handle(t: &str, v: &Value, alt: bool) -> Result<[u8; 16], String> {
    let x = if alt { 200 } else { 3 };
    let d = match t {
        "T1" => T1 { a: n(&v[0]) as u8, x: x as u32 * 1000, y: if alt { "other".into() } else { String::new() } }.create_dynamic_sample(),
        "T2" => T2 { x, a: n(&v[0]) as i32, b: n(&v[1]) as u16 }.create_dynamic_sample(),
        "T3" => T3 { s: s(&v[0]), x }.create_dynamic_sample(),
        "T4" => T4 { a: n(&v[0]) as u8, x: if alt { vec![1, 2, 3, 4, 5] } else { vec![] }, s: s(&v[1]) }.create_dynamic_sample(),
        "T5" => T5 { inner: Inner5 { id: n(&v[0]) as u16, y: x }, b: n(&v[1]) as u8 }.create_dynamic_sample(),
        "T6" => T6 { k: Key6 { a: n(&v[0]) as u8, b: n(&v[1]) as i32 }, x: x as u16 }.create_dynamic_sample(),
        "T7" => T7 { a: n(&v[0]) as i32, b: n(&v[1]) as i32, c: n(&v[2]) as i32, d: n(&v[3]) as i32, e: n(&v[4]) as u8, x }.create_dynamic_sample(),
        "T8" => T8 { a: n(&v[0]) as i32, b: n(&v[1]) as i32, x: x as u64 * 1_000_000_007, c: n(&v[2]) as i32, d: n(&v[3]) as i32 }.create_dynamic_sample(),
        "T9" => T9 { a: n(&v[0]) as u16, b: n(&v[1]) as u16, c: n(&v[2]) as u16, d: n(&v[3]) as u16, e: n(&v[4]) as u16, f: n(&v[5]) as u16, g: n(&v[6]) as u16, h: n(&v[7]) as u16, i: n(&v[8]) as u8 }.create_dynamic_sample(),
        "T10" => T10 { a: n(&v[0]) as u8, b: n(&v[1]) as u16, x: if alt { "zzz".into() } else { "q".into() }, c: n(&v[2]) as u8, d: n(&v[3]) as i32, e: n(&v[4]) as u8 }.create_dynamic_sample(),
        "T11" => T11 { inner: Inner5 { id: n(&v[0]) as u16, y: x }, x: if alt { vec![9; 7] } else { vec![] } }.create_dynamic_sample(),
        "T12" => T12 { x: if alt { vec![9; 7] } else { vec![] }, id: n(&v[0]) as i32 }.create_dynamic_sample(),
        o => return Err(format!("unknown type {o}")),
    };
    std::panic::catch_unwind(std::panic::AssertUnwindSafe(|| get_instance_handle_from_dynamic_data(&d)))
        .map_err(|_| "panic".to_string())?
        .map(|h| h.into())
        .map_err(|e| format!("{e:?}"))
}

pub fn expected(e: &Value) -> [u8; 16] {
    let bytes: Vec<u8> = e["bytes"].as_array().unwrap().iter().map(|x| x.as_u64().unwrap() as u8).collect();
    if e["mode"] == "pad" {
        let mut h = [0u8; 16];
        h.copy_from_slice(&bytes);
        h
    } else {
        md5::compute(&bytes).0
    }
}

pub fn run_cases(path: &str) -> Value {
    let text = std::fs::read_to_string(path).expect("cases");
    std::panic::set_hook(Box::new(|_| {}));
    let mut distinct: BTreeMap<String, Value> = BTreeMap::new();
    let mut per_type: BTreeMap<String, Vec<(Value, [u8; 16])>> = BTreeMap::new();
    let (mut evaluated, mut md5n, mut padn, mut pairs) = (0u64, 0u64, 0u64, 0u64);
    for line in text.lines() {
        if line.trim().is_empty() { continue; }
        let c: Value = serde_json::from_str(line).unwrap();
        let t = c["t"].as_str().unwrap();
        evaluated += 1;
        if c["e"]["mode"] == "pad" { padn += 1 } else { md5n += 1 }
        let want = expected(&c["e"]);
        match (handle(t, &c["v"], false), handle(t, &c["v"], true)) {
            (Ok(h), Ok(h2)) => {
                if h != want {
                    let how = if c["e"]["mode"] == "md5" && h[..].iter().skip(c["e"]["bytes"].as_array().unwrap().len().min(16)).all(|b| *b == 0) { "padded-although-max-size-exceeds-16" } else { "octets" };
                    let sig = format!("KeyHash:{}:{}:{how}", c["e"]["mode"].as_str().unwrap(), if c["max"].as_i64().unwrap() >= 100000 { "unbounded-key" } else { "bounded-key" });
                    distinct.entry(sig.clone()).or_insert_with(|| json!({"sig": sig, "case": c, "expected": want.to_vec(), "got": h.to_vec()}));
                }
                if h != h2 {
                    let sig = "KeyHash:identity:handle-depends-on-non-key-members".to_string();
                    distinct.entry(sig.clone()).or_insert_with(|| json!({"sig": sig, "case": c, "expected": h.to_vec(), "got": h2.to_vec()}));
                }
                per_type.entry(t.to_string()).or_default().push((c["v"].clone(), h));
            }
            (Err(e), _) | (_, Err(e)) => {
                let sig = format!("KeyHash:error:{t}");
                distinct.entry(sig.clone()).or_insert_with(|| json!({"sig": sig, "case": c, "expected": want.to_vec(), "got": e}));
            }
        }
    }
    // C11: same handle iff same key, over all pairs of values of a type
    for (t, l) in &per_type {
        for i in 0..l.len() {
            for j in (i + 1)..l.len() {
                pairs += 1;
                if (l[i].0 == l[j].0) != (l[i].1 == l[j].1) {
                    let sig = "KeyHash:identity:different-keys-same-handle".to_string();
                    distinct.entry(sig.clone()).or_insert_with(|| json!({"sig": sig, "case": {"t": t, "v": l[i].0, "v2": l[j].0}, "expected": "different handles", "got": l[i].1.to_vec()}));
                }
            }
        }
    }
    json!({"evaluated": evaluated, "pad": padn, "md5": md5n, "pairs": pairs, "types": per_type.len(), "distinct": distinct.values().collect::<Vec<_>>()})
}


// ---------------------------------------------------------------------------------------------
// end to end (C11): the handle the writer assigns (register_instance), the handle of the sample the reader
// presents and the handle of the instance the reader reports as disposed are the same, for every key value
use crate::scen::World;
use dust_dds::infrastructure::{listener::NO_LISTENER, qos::QosKind, sample_info::{ANY_INSTANCE_STATE, ANY_SAMPLE_STATE, ANY_VIEW_STATE}, status::NO_STATUS};

/// `make(v, fat)`: the sample with key `v`; `fat` = its non-key members are so large that the sample is fragmented (DATA_FRAG
/// carries no inline QoS, so the key hash does not travel and the reader derives the handle from the payload).
async fn e2e_typed<T>(w: &mut World, tname: &str, values: &[Value], fat_capable: bool, make: impl Fn(&Value, bool) -> T) -> Vec<Value>
where
    T: TypeSupport + Clone + Send + Sync + 'static,
{
    let mut out = Vec::new();
    let topic_name = format!("KH_{tname}");
    let wq = crate::scen::writer_qos(&json!({"rel": "RELIABLE", "hist": 0}));
    let rq = crate::scen::reader_qos(&json!({"rel": "RELIABLE", "hist": 0}));
    let r: Result<(), dust_dds::infrastructure::error::DdsError> = async {
        let t0 = w.parts[0].p.create_topic::<T>(&topic_name, tname, QosKind::Default, NO_LISTENER, NO_STATUS).await?;
        let t1 = w.parts[1].p.create_topic::<T>(&topic_name, tname, QosKind::Default, NO_LISTENER, NO_STATUS).await?;
        let writer = w.parts[0].publisher.create_datawriter::<T>(&t0, QosKind::Specific(wq), NO_LISTENER, NO_STATUS).await?;
        let reader = w.parts[1].subscriber.create_datareader::<T>(&t1, QosKind::Specific(rq), NO_LISTENER, NO_STATUS).await?;
        w.sleep_ms(800).await;
        let mut reg = Vec::new();
        for v in values {
            let h = writer.register_instance(make(v, false)).await?;
            reg.push(h.map(|h| <[u8; 16]>::from(h).to_vec()));
            writer.write(make(v, false), None).await?;
        }
        w.sleep_ms(500).await;
        let samples = reader.take(i32::MAX, ANY_SAMPLE_STATE, ANY_VIEW_STATE, ANY_INSTANCE_STATE).await.unwrap_or_default();
        for (k, v) in values.iter().enumerate() {
            let hr = samples.get(k).map(|s| <[u8; 16]>::from(s.sample_info.instance_handle).to_vec());
            out.push(json!({"ev": "KeyE2E", "type": tname, "v": v, "phase": "alive", "hw": reg[k], "hr": hr}));
        }
        if fat_capable {
            for v in values {
                writer.write(make(v, true), None).await?;
            }
            w.sleep_ms(800).await;
            let samples = reader.take(i32::MAX, ANY_SAMPLE_STATE, ANY_VIEW_STATE, ANY_INSTANCE_STATE).await.unwrap_or_default();
            for (k, v) in values.iter().enumerate() {
                let hr = samples.get(k).map(|s| <[u8; 16]>::from(s.sample_info.instance_handle).to_vec());
                out.push(json!({"ev": "KeyE2E", "type": tname, "v": v, "phase": "alive-fragmented-no-key-hash-on-the-wire", "hw": reg[k], "hr": hr}));
            }
        }
        // dispose the first instance: the reader derives the handle from the key-only payload
        if let Some(v) = values.first() {
            writer.dispose(make(v, false), None).await?;
            w.sleep_ms(500).await;
            let samples = reader.take(i32::MAX, ANY_SAMPLE_STATE, ANY_VIEW_STATE, ANY_INSTANCE_STATE).await.unwrap_or_default();
            let hr = samples.first().map(|s| <[u8; 16]>::from(s.sample_info.instance_handle).to_vec());
            out.push(json!({"ev": "KeyE2E", "type": tname, "v": v, "phase": "disposed", "hw": reg[0], "hr": hr}));
        }
        Ok(())
    }.await;
    if let Err(e) = r {
        out.push(json!({"ev": "KeyE2E", "type": tname, "error": format!("{e:?}")}));
    }
    out
}

pub async fn e2e(w: &mut World, t: &str, values: &[Value]) -> Vec<Value> {
    let x = 3u8;
    let big = |fat: bool, small: &str| -> String { if fat { "z".repeat(3000) } else { small.to_string() } };
    match t {
        "T1" => e2e_typed(w, t, values, true, |v, fat| T1 { a: n(&v[0]) as u8, x: 7, y: big(fat, "y") }).await,
        "T2" => e2e_typed(w, t, values, false, |v, _| T2 { x, a: n(&v[0]) as i32, b: n(&v[1]) as u16 }).await,
        "T3" => e2e_typed(w, t, values, false, |v, _| T3 { s: s(&v[0]), x }).await,
        "T4" => e2e_typed(w, t, values, true, |v, fat| T4 { a: n(&v[0]) as u8, x: if fat { vec![1; 3000] } else { vec![1] }, s: s(&v[1]) }).await,
        "T5" => e2e_typed(w, t, values, false, |v, _| T5 { inner: Inner5 { id: n(&v[0]) as u16, y: x }, b: n(&v[1]) as u8 }).await,
        "T6" => e2e_typed(w, t, values, false, |v, _| T6 { k: Key6 { a: n(&v[0]) as u8, b: n(&v[1]) as i32 }, x: 9 }).await,
        "T7" => e2e_typed(w, t, values, false, |v, _| T7 { a: n(&v[0]) as i32, b: n(&v[1]) as i32, c: n(&v[2]) as i32, d: n(&v[3]) as i32, e: n(&v[4]) as u8, x }).await,
        "T8" => e2e_typed(w, t, values, false, |v, _| T8 { a: n(&v[0]) as i32, b: n(&v[1]) as i32, x: 5, c: n(&v[2]) as i32, d: n(&v[3]) as i32 }).await,
        "T9" => e2e_typed(w, t, values, false, |v, _| T9 { a: n(&v[0]) as u16, b: n(&v[1]) as u16, c: n(&v[2]) as u16, d: n(&v[3]) as u16, e: n(&v[4]) as u16, f: n(&v[5]) as u16, g: n(&v[6]) as u16, h: n(&v[7]) as u16, i: n(&v[8]) as u8 }).await,
        "T10" => e2e_typed(w, t, values, true, |v, fat| T10 { a: n(&v[0]) as u8, b: n(&v[1]) as u16, x: big(fat, "q"), c: n(&v[2]) as u8, d: n(&v[3]) as i32, e: n(&v[4]) as u8 }).await,
        "T11" => e2e_typed(w, t, values, true, |v, fat| T11 { inner: Inner5 { id: n(&v[0]) as u16, y: x }, x: if fat { vec![7; 3000] } else { vec![7] } }).await,
        "T12" => e2e_typed(w, t, values, true, |v, fat| T12 { x: if fat { vec![7; 3000] } else { vec![7] }, id: n(&v[0]) as i32 }).await,
        _ => vec![json!({"ev": "KeyE2E", "type": t, "error": "unknown type"})],
    }
}
