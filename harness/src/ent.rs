//! Entities.tla bound to the real entity tree through the async API in the simulation (C35, C36).
use crate::replay::Model;
use crate::scen::{KeyedData, err_name, global};
use dust_dds::dds_async::{
    data_reader::DataReaderAsync, data_writer::DataWriterAsync, domain_participant::DomainParticipantAsync,
    publisher::PublisherAsync, subscriber::SubscriberAsync, topic::TopicAsync, content_filtered_topic::ContentFilteredTopicAsync,
};
use dust_dds::infrastructure::{error::DdsError, listener::NO_LISTENER, qos::QosKind, status::NO_STATUS};
use serde_json::{Value, json};

pub struct EntModel {
    p: Option<DomainParticipantAsync>,
    pubs: Vec<PublisherAsync>,
    subs: Vec<SubscriberAsync>,
    topics: Vec<TopicAsync>,
    writers: Vec<DataWriterAsync<KeyedData>>,
    readers: Vec<DataReaderAsync<KeyedData>>,
    cfts: Vec<ContentFilteredTopicAsync>,
    live: [Vec<bool>; 6],
    deleted_participant: bool,
    churned: bool,
}

fn run<T>(f: impl std::future::Future<Output = T>) -> T {
    match global().sim.run(f, 2_000_000, 3600 * crate::sim::NS) {
        Ok(v) => v,
        Err(e) => panic!("simulation stalled: {e:?}"),
    }
}
fn rn<T>(r: &Result<T, DdsError>) -> String {
    match r {
        Ok(_) => "Ok".into(),
        Err(e) => err_name(e),
    }
}

impl EntModel {
    pub fn new(cfg: &Value) -> Self {
        let warm = cfg["Warm"].as_u64().unwrap_or(0);
        let p = run(async {
            let p = global().factory.create_participant(0, QosKind::Default, NO_LISTENER, NO_STATUS).await.expect("participant");
            // bring the entity counters close to their wrap-around
            for _ in 0..warm {
                if let Ok(x) = p.create_publisher(QosKind::Default, NO_LISTENER, NO_STATUS).await {
                    let _ = p.delete_publisher(&x).await;
                }
                if let Ok(x) = p.create_subscriber(QosKind::Default, NO_LISTENER, NO_STATUS).await {
                    let _ = p.delete_subscriber(&x).await;
                }
            }
            p
        });
        EntModel { p: Some(p), pubs: vec![], subs: vec![], topics: vec![], writers: vec![], readers: vec![], cfts: vec![],
                   live: Default::default(), deleted_participant: false, churned: false }
    }

    fn handles_distinct(&self) -> bool {
        let mut hs: Vec<[u8; 16]> = Vec::new();
        for (k, x) in self.pubs.iter().enumerate() { if self.live[0][k] { hs.push(x.get_instance_handle().into()); } }
        for (k, x) in self.subs.iter().enumerate() { if self.live[1][k] { hs.push(x.get_instance_handle().into()); } }
        for (k, x) in self.topics.iter().enumerate() { if self.live[2][k] { hs.push(x.get_instance_handle().into()); } }
        for (k, x) in self.writers.iter().enumerate() { if self.live[3][k] { hs.push(x.get_instance_handle().into()); } }
        for (k, x) in self.readers.iter().enumerate() { if self.live[4][k] { hs.push(x.get_instance_handle().into()); } }
        let n = hs.len();
        hs.sort();
        hs.dedup();
        hs.len() == n
    }
}

impl Drop for EntModel {
    fn drop(&mut self) {
        if let Some(p) = self.p.take() {
            if !self.deleted_participant {
                let _ = std::panic::catch_unwind(std::panic::AssertUnwindSafe(|| {
                    run(async {
                        let _ = p.delete_contained_entities().await;
                        let _ = global().factory.delete_participant(&p).await;
                    })
                }));
            }
        }
    }
}

impl Model for EntModel {
    fn apply(&mut self, op: &Value) -> Value {
        let a = &op["a"];
        let id = |k: &str| a[k].as_u64().unwrap_or(0) as usize;
        let p = self.p.clone().unwrap();
        let res: String = match op["op"].as_str().unwrap() {
            "CreatePub" => {
                let r = run(p.create_publisher(QosKind::Default, NO_LISTENER, NO_STATUS));
                let s = rn(&r);
                if let Ok(x) = r { self.pubs.push(x); self.live[0].push(true); }
                s
            }
            "CreateSub" => {
                let r = run(p.create_subscriber(QosKind::Default, NO_LISTENER, NO_STATUS));
                let s = rn(&r);
                if let Ok(x) = r { self.subs.push(x); self.live[1].push(true); }
                s
            }
            "CreateTopic" => {
                let name = a["name"].as_str().unwrap().to_string();
                let r = run(p.create_topic::<KeyedData>(&name, "KeyedData", QosKind::Default, NO_LISTENER, NO_STATUS));
                let s = rn(&r);
                if let Ok(x) = r { self.topics.push(x); self.live[2].push(true); }
                s
            }
            "CreateWriter" => {
                let (pb, t) = (self.pubs[id("pub") - 1].clone(), self.topics[id("topic") - 1].clone());
                let r = run(pb.create_datawriter::<KeyedData>(&t, QosKind::Default, NO_LISTENER, NO_STATUS));
                let s = rn(&r);
                if let Ok(x) = r { self.writers.push(x); self.live[3].push(true); }
                s
            }
            "CreateReader" => {
                let (sb, t) = (self.subs[id("sub") - 1].clone(), self.topics[id("topic") - 1].clone());
                let r = run(sb.create_datareader::<KeyedData>(&t, QosKind::Default, NO_LISTENER, NO_STATUS));
                let s = rn(&r);
                if let Ok(x) = r { self.readers.push(x); self.live[4].push(true); }
                s
            }
            "Churn" => {
                self.churned = true;
                let n = id("n");
                let r: Result<(), DdsError> = run(async {
                    for _ in 0..n {
                        let x = p.create_publisher(QosKind::Default, NO_LISTENER, NO_STATUS).await?;
                        p.delete_publisher(&x).await?;
                        let y = p.create_subscriber(QosKind::Default, NO_LISTENER, NO_STATUS).await?;
                        p.delete_subscriber(&y).await?;
                    }
                    Ok(())
                });
                rn(&r)
            }
            "DeletePub" => {
                let r = run(p.delete_publisher(&self.pubs[id("id") - 1]));
                if r.is_ok() { self.live[0][id("id") - 1] = false; }
                rn(&r)
            }
            "DeleteSub" => {
                let r = run(p.delete_subscriber(&self.subs[id("id") - 1]));
                if r.is_ok() { self.live[1][id("id") - 1] = false; }
                rn(&r)
            }
            "DeleteTopic" => {
                let r = run(p.delete_topic(&self.topics[id("id") - 1]));
                if r.is_ok() { self.live[2][id("id") - 1] = false; }
                rn(&r)
            }
            "DeleteWriter" => {
                let r = run(self.pubs[id("pub") - 1].delete_datawriter(&self.writers[id("id") - 1]));
                if r.is_ok() { self.live[3][id("id") - 1] = false; }
                rn(&r)
            }
            "DeleteReader" => {
                let r = run(self.subs[id("sub") - 1].delete_datareader(&self.readers[id("id") - 1]));
                if r.is_ok() { self.live[4][id("id") - 1] = false; }
                rn(&r)
            }
            "CreateCft" => {
                let t = self.topics[id("topic") - 1].clone();
                let name = format!("cft{}", self.cfts.len() + 1);
                let r = run(p.create_contentfilteredtopic(&name, &t, "id = %0".to_string(), vec!["1".to_string()]));
                let s = rn(&r);
                if let Ok(x) = r { self.cfts.push(x); self.live[5].push(true); }
                s
            }
            "DeleteCft" => {
                let r = run(p.delete_contentfilteredtopic(&self.cfts[id("id") - 1]));
                if r.is_ok() { self.live[5][id("id") - 1] = false; }
                rn(&r)
            }
            "Use" => {
                let k = id("id") - 1;
                match a["kind"].as_str().unwrap() {
                    "pub" => rn(&run(self.pubs[k].get_qos())),
                    "sub" => rn(&run(self.subs[k].get_qos())),
                    "topic" => rn(&run(self.topics[k].get_qos())),
                    "writer" => rn(&run(self.writers[k].get_qos())),
                    _ => rn(&run(self.readers[k].get_qos())),
                }
            }
            "DeleteContained" => {
                let r = run(p.delete_contained_entities());
                if r.is_ok() { for l in self.live.iter_mut() { for x in l.iter_mut() { *x = false; } } }
                rn(&r)
            }
            "DeleteParticipant" => {
                let r = run(global().factory.delete_participant(&p));
                if r.is_ok() { self.deleted_participant = true; }
                rn(&r)
            }
            other => panic!("unknown op {other}"),
        };
        json!({"res": res, "distinct": self.handles_distinct()})
    }

    fn project(&self) -> Value {
        // what the real entities answer (an entity that still exists answers get_qos, a deleted one AlreadyDeleted), not the
        // harness' own bookkeeping: an operation that must change nothing is seen to change nothing
        let alive = |ok: bool| ok;
        let pubs: Vec<bool> = self.pubs.iter().map(|x| alive(run(x.get_qos()).is_ok())).collect();
        let subs: Vec<bool> = self.subs.iter().map(|x| alive(run(x.get_qos()).is_ok())).collect();
        let topics: Vec<bool> = self.topics.iter().map(|x| alive(run(x.get_qos()).is_ok())).collect();
        let writers: Vec<bool> = self.writers.iter().map(|x| alive(run(x.get_qos()).is_ok())).collect();
        let readers: Vec<bool> = self.readers.iter().map(|x| alive(run(x.get_qos()).is_ok())).collect();
        json!({"pubs": pubs, "subs": subs, "topics": topics, "writers": writers, "readers": readers, "cfts": self.live[5]})
    }

    fn compare_result(&self, op: &Value, got: &Value) -> Option<String> {
        if got["distinct"] == false {
            return Some("handles: two simultaneously existing entities have the same instance handle".to_string());
        }
        crate::replay::compare(&op["expect"], got, "expect")
    }

    fn compare_state(&self, expected: &Value, got: &Value) -> Option<String> {
        if self.deleted_participant {
            return None;
        }
        for kind in ["pubs", "subs", "writers", "readers"] {
            // after 256 further creations the 8-bit key of a deleted publisher / subscriber is in use again and the stale object
            // answers through the new entity (same kind of aliasing as for topics): then only the entities the specification
            // holds alive are compared
            if self.churned && (kind == "pubs" || kind == "subs") {
                let (e, g) = (expected[kind].as_array().cloned().unwrap_or_default(), got[kind].as_array().cloned().unwrap_or_default());
                if e.len() != g.len() {
                    return Some(format!("state.{kind}: expected {} entities, got {}", e.len(), g.len()));
                }
                for (k, (x, y)) in e.iter().zip(g.iter()).enumerate() {
                    if x == true && y != true {
                        return Some(format!("state.{kind}[{k}]: expected alive, the entity answers AlreadyDeleted"));
                    }
                }
                continue;
            }
            if let Some(d) = crate::replay::compare(&expected[kind], &got[kind], &format!("state.{kind}")) {
                return Some(d);
            }
        }
        // a deleted topic whose name is in use again answers through the newer topic (recorded finding, judged at the operations
        // on it): only the topics the specification holds alive are compared
        let (e, g) = (expected["topics"].as_array().cloned().unwrap_or_default(), got["topics"].as_array().cloned().unwrap_or_default());
        if e.len() != g.len() {
            return Some(format!("state.topics: expected {} topics, got {}", e.len(), g.len()));
        }
        for (k, (x, y)) in e.iter().zip(g.iter()).enumerate() {
            if x == true && y != true {
                return Some(format!("state.topics[{k}]: expected alive, the topic answers AlreadyDeleted"));
            }
        }
        None
    }
}
