//! Deterministic simulation of dust-dds: single-threaded executor, virtual clock, in-memory
//! faulty network. No source changes are needed: the runtime and the transport are public traits.
//!
//! One worker iteration of dust-dds is one poll of the worker task; the driver decides, with a
//! seeded RNG, which datagram is delivered / dropped / duplicated / delayed and when time moves.
//! Every externally visible step is appended to an event log (ndjson) that `Trace_*.tla` validates.
use dust_dds::infrastructure::time::Time;
use dust_dds::rtps_messages::overall_structure::{RtpsMessageRead, RtpsSubmessageReadKind};
use dust_dds::runtime::{Clock, DdsRuntime, Spawner, TaskHandle, Timer};
use dust_dds::transport::interface::{
    RtpsTransportParticipant, TransportDataReceiver, TransportParticipantFactory, WriteMessage,
};
use dust_dds::transport::types::Locator;
use rand::rngs::StdRng;
use rand::{Rng, SeedableRng};
use serde_json::{Value, json};
use std::collections::{HashMap, VecDeque};
use std::future::Future;
use std::pin::Pin;
use std::sync::atomic::{AtomicBool, Ordering};
use std::sync::{Arc, Mutex};
use std::task::{Context, Poll, Wake, Waker};

pub const START_SEC: i64 = 1000;
pub const NS: i64 = 1_000_000_000;

type BoxFut = Pin<Box<dyn Future<Output = ()> + Send>>;

#[derive(Clone, Debug)]
pub struct Datagram {
    pub id: u64,
    pub from: usize,
    pub to: usize,
    pub meta: bool,
    pub bytes: Arc<Vec<u8>>,
    pub deliver_at: i64,
    pub kinds: Vec<String>, // submessage kinds, for rules
    pub decided: bool,      // fault decision already taken (delayed copy)
    pub desc: Value,
}

#[derive(Clone, Debug, Default)]
pub struct FaultMode {
    pub loss: f64,
    pub dup: f64,
    pub delay: f64,       // probability of an extra delay (reordering)
    pub max_delay_ns: i64,
}

/// A targeted rule (TLC-generated fault patterns): the `nth` (1-based) datagram from `from` to
/// `to` that contains a submessage of kind `kind` (and writer sn `sn`, fragment `frag` if given).
#[derive(Clone, Debug)]
pub struct Rule {
    pub from: usize,
    pub to: usize,
    pub kind: String,
    pub sn: Option<i64>,
    pub frag: Option<i64>,
    pub nth: u32,
    pub action: String, // "drop" | "dup" | "delay"
    pub delay_ns: i64,
    pub seen: u32,
}

pub struct PartInfo {
    pub domain: i32,
    pub receiver: TransportDataReceiver,
    pub unicast: Vec<Locator>,
    pub multicast: Vec<Locator>,
    pub alive: bool,
}

struct TimerEntry {
    id: u64,
    deadline: i64,
    waker: Option<Waker>,
}

pub struct CoreInner {
    pub now_ns: i64,
    next_task: usize,
    tasks: HashMap<usize, BoxFut>,
    ready: VecDeque<usize>,
    spawned: Vec<(usize, BoxFut)>,
    timers: Vec<TimerEntry>,
    next_timer: u64,
    pub inflight: Vec<Datagram>,
    next_dgram: u64,
    pub parts: Vec<PartInfo>,
    pub log: Vec<Value>,
    pub current_task: Option<usize>,
    pub user_faults: FaultMode,
    pub meta_faults: FaultMode,
    pub rules: Vec<Rule>,
    pub blocked: Vec<(usize, usize)>, // (from, to) pairs whose datagrams are dropped (partition)
    pub blocked_user: Vec<(usize, usize)>, // same, user traffic only (discovery still works)
    pub rng: StdRng,
    pub fragment_size: usize,
    pub log_meta: bool,
    pub zero_delay_run: u32,
    pub steps: u64,
    pub hold_user: bool, // hold all user datagrams in flight (released by the scenario)
    pub epoch_ns: i64,   // start of the current scenario: logged times are relative to it
    pub strip_domain_id: bool,   // rewrite PID_DOMAIN_ID into PID_PAD in every datagram sent (a peer that does not announce its domain id)
    pub drift_ns: i64,   // every clock read of the code under test advances the virtual time by this much (0 = frozen within a step)
}

#[derive(Clone)]
pub struct Core(pub Arc<Mutex<CoreInner>>);

impl Core {
    /// Deliver an arbitrary datagram to participant `to` (network index) right now, bypassing faults.
    pub fn inject(&self, to: usize, bytes: Vec<u8>) {
        let mut c = self.lock();
        let id = c.next_dgram;
        c.next_dgram += 1;
        let now = c.now_ns;
        let (kinds, desc) = describe(&bytes);
        c.inflight.push(Datagram { id, from: usize::MAX, to, meta: true, bytes: Arc::new(bytes), deliver_at: now, kinds, decided: true, desc });
    }
}

impl Core {
    /// Merge all held user datagrams with the same (from, to) into one RTPS message carrying all
    /// their submessages in sending order (what a batching peer would send). Returns the number
    /// of datagrams that were merged away.
    pub fn merge_held_user(&self) -> usize {
        let mut c = self.lock();
        let mut held: Vec<Datagram> = Vec::new();
        let mut rest: Vec<Datagram> = Vec::new();
        for d in c.inflight.drain(..) {
            if d.meta { rest.push(d) } else { held.push(d) }
        }
        held.sort_by_key(|d| d.id);
        let mut merged: Vec<Datagram> = Vec::new();
        let mut removed = 0;
        for d in held {
            if let Some(m) = merged.iter_mut().find(|m| m.from == d.from && m.to == d.to && m.bytes.len() >= 20 && d.bytes.len() >= 20 && m.bytes[..20] == d.bytes[..20]) {
                let mut b = (*m.bytes).clone();
                b.extend_from_slice(&d.bytes[20..]);
                let (kinds, desc) = describe(&b);
                m.bytes = Arc::new(b);
                m.kinds = kinds;
                m.desc = desc;
                removed += 1;
            } else {
                merged.push(d);
            }
        }
        let t = c.now_ns - c.epoch_ns;
        for m in &merged {
            let mut ev = json!({"ev": "Send", "id": m.id, "from": m.from, "to": m.to, "meta": false, "t": t, "merged": true});
            ev["subs"] = m.desc["subs"].clone();
            c.log.push(ev);
        }
        rest.extend(merged);
        c.inflight = rest;
        removed
    }
}


impl Core {
    pub fn new(seed: u64, fragment_size: usize) -> Self {
        Core(Arc::new(Mutex::new(CoreInner {
            now_ns: START_SEC * NS,
            next_task: 1,
            tasks: HashMap::new(),
            ready: VecDeque::new(),
            spawned: Vec::new(),
            timers: Vec::new(),
            next_timer: 1,
            inflight: Vec::new(),
            next_dgram: 1,
            parts: Vec::new(),
            log: Vec::new(),
            current_task: None,
            user_faults: FaultMode::default(),
            meta_faults: FaultMode::default(),
            rules: Vec::new(),
            blocked: Vec::new(),
            blocked_user: Vec::new(),
            rng: StdRng::seed_from_u64(seed),
            fragment_size,
            log_meta: false,
            zero_delay_run: 0,
            steps: 0,
            hold_user: false,
            epoch_ns: START_SEC * NS,
            strip_domain_id: false,
            drift_ns: 0,
        })))
    }
    pub fn lock(&self) -> std::sync::MutexGuard<'_, CoreInner> {
        self.0.lock().unwrap_or_else(|e| e.into_inner())
    }
    pub fn now_ns(&self) -> i64 {
        self.lock().now_ns
    }
    pub fn log(&self, v: Value) {
        let mut c = self.lock();
        let t = c.now_ns - c.epoch_ns;
        let mut v = v;
        if v.get("t").is_none() {
            v["t"] = json!(t);
        }
        c.log.push(v);
    }
}

pub fn time_of(ns: i64) -> Time {
    Time::new((ns / NS) as i32, (ns % NS) as u32)
}

// ---------------------------------------------------------------------------------------------
// runtime traits
// ---------------------------------------------------------------------------------------------
#[derive(Clone)]
pub struct SimClock(Core);
impl Clock for SimClock {
    fn now(&self) -> Time {
        // a real clock moves between two reads inside one worker iteration; with drift_ns > 0 so does this one
        let mut c = self.0.lock();
        c.now_ns += c.drift_ns;
        time_of(c.now_ns)
    }
}

#[derive(Clone)]
pub struct SimTimer(Core);
pub struct SimSleep {
    core: Core,
    dur_ns: i64,
    id: Option<u64>,
    deadline: i64,
    log: bool,
}
impl Future for SimSleep {
    type Output = ();
    fn poll(mut self: Pin<&mut Self>, cx: &mut Context<'_>) -> Poll<()> {
        let core = self.core.clone();
        let mut c = core.lock();
        match self.id {
            None => {
                // a zero delay completes only after the clock moved (the worker uses strict
                // comparisons and would otherwise spin at an exact deadline)
                let d = self.dur_ns.max(1);
                let deadline = c.now_ns.saturating_add(d);
                let id = c.next_timer;
                c.next_timer += 1;
                c.timers.push(TimerEntry { id, deadline, waker: Some(cx.waker().clone()) });
                if self.log {
                    let task = c.current_task;
                    let t = c.now_ns - c.epoch_ns;
                    let dur = self.dur_ns;
                    c.log.push(json!({"ev": "Sleep", "task": task, "d": dur, "t": t}));
                    if dur == 0 {
                        c.zero_delay_run += 1;
                    } else {
                        c.zero_delay_run = 0;
                    }
                }
                drop(c);
                self.id = Some(id);
                self.deadline = deadline;
                Poll::Pending
            }
            Some(id) => {
                if c.now_ns >= self.deadline {
                    c.timers.retain(|t| t.id != id);
                    Poll::Ready(())
                } else {
                    if let Some(t) = c.timers.iter_mut().find(|t| t.id == id) {
                        t.waker = Some(cx.waker().clone());
                    }
                    Poll::Pending
                }
            }
        }
    }
}
impl Drop for SimSleep {
    fn drop(&mut self) {
        if let Some(id) = self.id {
            let mut c = self.core.lock();
            c.timers.retain(|t| t.id != id);
        }
    }
}
impl Timer for SimTimer {
    fn delay(&mut self, duration: core::time::Duration) -> impl Future<Output = ()> + Send {
        let ns = duration.as_nanos().min(i64::MAX as u128) as i64;
        SimSleep { core: self.0.clone(), dur_ns: ns, id: None, deadline: 0, log: true }
    }
}

pub struct SimTaskHandle;
impl TaskHandle for SimTaskHandle {
    fn join(&self) {}
}
#[derive(Clone)]
pub struct SimSpawner(Core);
impl Spawner for SimSpawner {
    type TaskHandle = SimTaskHandle;
    fn spawn(&self, f: impl Future<Output = ()> + Send + 'static) -> SimTaskHandle {
        let mut c = self.0.lock();
        let id = c.next_task;
        c.next_task += 1;
        c.spawned.push((id, Box::pin(f)));
        c.ready.push_back(id);
        SimTaskHandle
    }
}

pub struct SimRuntime(pub Core);
impl DdsRuntime for SimRuntime {
    type ClockHandle = SimClock;
    type TimerHandle = SimTimer;
    type SpawnerHandle = SimSpawner;
    fn timer(&self) -> SimTimer {
        SimTimer(self.0.clone())
    }
    fn clock(&self) -> SimClock {
        SimClock(self.0.clone())
    }
    fn spawner(&self) -> SimSpawner {
        SimSpawner(self.0.clone())
    }
}

// ---------------------------------------------------------------------------------------------
// network
// ---------------------------------------------------------------------------------------------
pub struct SimNet(pub Core);
struct SimWriter {
    k: usize,
    core: Core,
}

fn hex(b: &[u8]) -> String {
    b.iter().map(|x| format!("{x:02x}")).collect()
}
fn eid(e: dust_dds::transport::types::EntityId) -> String {
    let k = e.entity_key();
    hex(&[k[0], k[1], k[2], e.entity_kind()])
}
pub fn fnv(b: &[u8]) -> String {
    let mut h: u64 = 0xcbf29ce484222325;
    for x in b {
        h ^= *x as u64;
        h = h.wrapping_mul(0x100000001b3);
    }
    format!("{:08x}", (h ^ (h >> 32)) as u32)
}

/// Abstract description of a datagram: list of submessages with the fields the specs talk about.
pub fn describe(bytes: &[u8]) -> (Vec<String>, Value) {
    let Ok(msg) = RtpsMessageRead::try_from(bytes) else {
        return (vec!["UNPARSEABLE".into()], json!({"subs": [], "raw_len": bytes.len()}));
    };
    let mut kinds = Vec::new();
    let mut subs = Vec::new();
    for s in msg.submessages() {
        let v = match s {
            RtpsSubmessageReadKind::Data(d) => {
                let mut status = 0u8;
                let mut keyhash = Value::Null;
                for p in d.inline_qos().parameter() {
                    if p.parameter_id() == 0x0071 && p.value().len() >= 4 {
                        status = p.value()[3];
                    }
                    if p.parameter_id() == 0x0070 {
                        keyhash = json!(hex(p.value()));
                    }
                }
                let pl = d.serialized_payload();
                json!({"k": "DATA", "w": eid(d.writer_id()), "r": eid(d.reader_id()),
                       "sn": d.writer_sn(), "len": pl.len(), "h": fnv(pl.as_ref()), "st": status, "kh": keyhash})
            }
            RtpsSubmessageReadKind::DataFrag(d) => {
                let pl = d.serialized_payload();
                json!({"k": "DATAFRAG", "w": eid(d.writer_id()), "r": eid(d.reader_id()),
                       "sn": d.writer_sn(), "f": d.fragment_starting_num(), "n": d.fragments_in_submessage(),
                       "fs": d.fragment_size(), "ds": d.data_size(), "len": pl.as_ref().len(), "h": fnv(pl.as_ref())})
            }
            RtpsSubmessageReadKind::Heartbeat(h) => json!({"k": "HB", "w": eid(h.writer_id()),
                       "first": h.first_sn(), "last": h.last_sn(), "c": h.count(), "final": h.final_flag()}),
            RtpsSubmessageReadKind::AckNack(a) => json!({"k": "ACKNACK", "w": eid(*a.writer_id()),
                       "r": eid(*a.reader_id()), "base": a.reader_sn_state().base(),
                       "set": a.reader_sn_state().set().collect::<Vec<_>>(), "c": a.count()}),
            RtpsSubmessageReadKind::Gap(g) => json!({"k": "GAP", "w": eid(g.writer_id()),
                       "start": g.gap_start(), "base": g.gap_list().base(), "set": g.gap_list().set().collect::<Vec<_>>()}),
            RtpsSubmessageReadKind::NackFrag(n) => json!({"k": "NACKFRAG", "r": eid(n.reader_id()),
                       "sn": n.writer_sn(), "base": n.fragment_number_state().base(),
                       "set": n.fragment_number_state().set().collect::<Vec<_>>(), "c": n.count()}),
            RtpsSubmessageReadKind::HeartbeatFrag(_) => json!({"k": "HBFRAG"}),
            RtpsSubmessageReadKind::InfoDestination(d) => json!({"k": "INFO_DST", "p": hex(&d.guid_prefix())}),
            RtpsSubmessageReadKind::InfoReply(_) => json!({"k": "INFO_REPLY"}),
            RtpsSubmessageReadKind::InfoSource(_) => json!({"k": "INFO_SRC"}),
            RtpsSubmessageReadKind::InfoTimestamp(t) => {
                let ts = t.timestamp();
                json!({"k": "INFO_TS", "inv": t.invalidate_flag(), "s": ts.seconds(), "fr": ts.fraction()})
            }
            RtpsSubmessageReadKind::Pad(_) => json!({"k": "PAD"}),
        };
        kinds.push(v["k"].as_str().unwrap().to_string());
        subs.push(v);
    }
    (kinds, json!({"src": hex(&msg.header().guid_prefix()), "subs": subs}))
}

impl WriteMessage for SimWriter {
    fn write_message(&self, buf: &[u8], locators: &[Locator]) {
        let (kinds, desc) = describe(buf);
        let mut c = self.core.lock();
        let mut raw = buf.to_vec();
        if c.strip_domain_id {
            // a peer of another vendor / an older RTPS version that does not announce its domain id: PID_DOMAIN_ID (0x000f,
            // length 4) of every parameter list becomes PID_PAD of the same length (little endian parameter lists)
            let mut k = 0;
            while k + 8 <= raw.len() {
                if raw[k..k + 4] == [0x0f, 0x00, 0x04, 0x00] && k % 4 == 0 {
                    raw[k] = 0x00;
                    k += 8;
                } else {
                    k += 4;
                }
            }
        }
        let bytes = Arc::new(raw);
        let mut dests: Vec<(usize, bool)> = Vec::new();
        let my_domain = c.parts[self.k].domain;
        for loc in locators {
            for (j, p) in c.parts.iter().enumerate() {
                if !p.alive {
                    continue;
                }
                if p.multicast.contains(loc) && p.domain == my_domain {
                    if !dests.iter().any(|d| d.0 == j) {
                        dests.push((j, true));
                    }
                } else if p.unicast.contains(loc) {
                    let meta = p.unicast.first() == Some(loc);
                    if !dests.iter().any(|d| d.0 == j) {
                        dests.push((j, meta));
                    }
                }
            }
        }
        for (to, meta) in dests {
            let id = c.next_dgram;
            c.next_dgram += 1;
            let is_user = !meta;
            let now = c.now_ns;
            let d = Datagram { id, from: self.k, to, meta, bytes: bytes.clone(), deliver_at: now,
                               kinds: kinds.clone(), decided: false, desc: desc.clone() };
            if is_user || c.log_meta {
                let t = now - c.epoch_ns;
                let mut ev = json!({"ev": "Send", "id": id, "from": self.k, "to": to, "meta": meta, "t": t});
                ev["subs"] = desc["subs"].clone();
                c.log.push(ev);
            }
            c.inflight.push(d);
        }
    }
}
impl Drop for SimWriter {
    fn drop(&mut self) {
        let mut c = self.core.lock();
        if let Some(p) = c.parts.get_mut(self.k) {
            p.alive = false;
        }
    }
}

impl TransportParticipantFactory for SimNet {
    fn create_participant(&self, domain_id: i32, data_receiver: TransportDataReceiver) -> RtpsTransportParticipant {
        let mut c = self.0.lock();
        let k = c.parts.len();
        let mut addr = [0u8; 16];
        addr[12] = 10;
        addr[15] = (k + 1) as u8;
        let base = 7400 + 250 * domain_id as u32;
        let meta_uni = Locator::new(1, base + 10 + 2 * k as u32, addr);
        let user_uni = Locator::new(1, base + 11 + 2 * k as u32, addr);
        let mut maddr = [0u8; 16];
        maddr[12] = 239;
        maddr[13] = 255;
        maddr[15] = 1;
        let meta_multi = Locator::new(1, base, maddr);
        c.parts.push(PartInfo {
            domain: domain_id,
            receiver: data_receiver,
            unicast: vec![meta_uni, user_uni],
            multicast: vec![meta_multi],
            alive: true,
        });
        let fragment_size = c.fragment_size;
        RtpsTransportParticipant {
            message_writer: Box::new(SimWriter { k, core: self.0.clone() }),
            default_unicast_locator_list: vec![user_uni],
            metatraffic_unicast_locator_list: vec![meta_uni],
            metatraffic_multicast_locator_list: vec![meta_multi],
            default_multicast_locator_list: vec![],
            fragment_size,
        }
    }
}

// ---------------------------------------------------------------------------------------------
// executor / driver
// ---------------------------------------------------------------------------------------------
struct TaskWaker {
    id: usize,
    core: Core,
}
impl Wake for TaskWaker {
    fn wake(self: Arc<Self>) {
        let mut c = self.core.lock();
        if !c.ready.contains(&self.id) {
            c.ready.push_back(self.id);
        }
    }
}
struct FlagWaker(AtomicBool);
impl Wake for FlagWaker {
    fn wake(self: Arc<Self>) {
        self.0.store(true, Ordering::SeqCst);
    }
}

#[derive(Debug)]
pub enum SimError {
    Hang(String),
    Deadlock(String),
}

pub struct Sim {
    pub core: Core,
    // one stable Waker per task: embassy's WakerRegistration wakes the previously registered
    // waker when a *different* one is registered, so a fresh waker per poll would self-wake forever
    wakers: Mutex<HashMap<usize, Waker>>,
}

impl Sim {
    pub fn new(seed: u64, fragment_size: usize) -> Self {
        Sim { core: Core::new(seed, fragment_size), wakers: Mutex::new(HashMap::new()) }
    }

    /// Poll one ready task. Returns false if none was ready.
    fn step_task(&self) -> bool {
        let (id, mut fut) = {
            let mut c = self.core.lock();
            let spawned: Vec<_> = c.spawned.drain(..).collect();
            for (id, f) in spawned {
                c.tasks.insert(id, f);
            }
            loop {
                let Some(id) = c.ready.pop_front() else { return false };
                if let Some(f) = c.tasks.remove(&id) {
                    c.current_task = Some(id);
                    c.steps += 1;
                    break (id, f);
                }
            }
        };
        let waker = self
            .wakers
            .lock()
            .unwrap()
            .entry(id)
            .or_insert_with(|| Waker::from(Arc::new(TaskWaker { id, core: self.core.clone() })))
            .clone();
        let mut cx = Context::from_waker(&waker);
        let r = fut.as_mut().poll(&mut cx);
        let mut c = self.core.lock();
        c.current_task = None;
        if r.is_pending() {
            c.tasks.insert(id, fut);
        } else {
            drop(c);
            self.wakers.lock().unwrap().remove(&id);
        }
        true
    }

    /// Decide the fate of the next deliverable datagram. Returns false if nothing deliverable now.
    fn step_net(&self) -> bool {
        let deliver: Option<(TransportDataReceiver, Arc<Vec<u8>>)>;
        {
            let mut c = self.core.lock();
            let now = c.now_ns;
            let hold_user = c.hold_user;
            let Some(pos) = c
                .inflight
                .iter()
                .enumerate()
                .filter(|(_, d)| d.deliver_at <= now && !(hold_user && !d.meta))
                .min_by_key(|(_, d)| (d.deliver_at, d.id))
                .map(|(i, _)| i)
            else {
                return false;
            };
            let mut d = c.inflight.remove(pos);
            let t = now - c.epoch_ns;
            let logit = !d.meta || c.log_meta;
            if !c.parts[d.to].alive {
                return true;
            }
            if c.blocked.contains(&(d.from, d.to)) || (!d.meta && c.blocked_user.contains(&(d.from, d.to))) {
                if logit {
                    c.log.push(json!({"ev": "Drop", "id": d.id, "to": d.to, "why": "partition", "t": t}));
                }
                return true;
            }
            // targeted rules first (only for first transmissions through the network, not re-queued copies)
            let mut action: Option<(String, i64)> = None;
            if !d.decided {
                let dd = d.clone();
                for r in c.rules.iter_mut() {
                    if r.from != dd.from || r.to != dd.to || r.nth == 0 {
                        continue;
                    }
                    let hit = dd.desc["subs"].as_array().map(|subs| {
                        subs.iter().any(|s| {
                            s["k"] == r.kind.as_str()
                                && r.sn.map(|x| s["sn"] == x).unwrap_or(true)
                                && r.frag.map(|x| s["f"] == x).unwrap_or(true)
                        })
                    }).unwrap_or(false);
                    if hit {
                        r.seen += 1;
                        if r.seen == r.nth {
                            r.nth = 0; // consumed
                            action = Some((r.action.clone(), r.delay_ns));
                            break;
                        }
                    }
                }
            }
            if action.is_none() && !d.decided {
                let fm = if d.meta { c.meta_faults.clone() } else { c.user_faults.clone() };
                if fm.loss > 0.0 && c.rng.gen_bool(fm.loss) {
                    action = Some(("drop".into(), 0));
                } else if fm.dup > 0.0 && c.rng.gen_bool(fm.dup) {
                    action = Some(("dup".into(), 0));
                } else if fm.delay > 0.0 && c.rng.gen_bool(fm.delay) {
                    let dl = c.rng.gen_range(1..=fm.max_delay_ns.max(1));
                    action = Some(("delay".into(), dl));
                }
            }
            match action.as_ref().map(|a| a.0.as_str()) {
                Some("drop") => {
                    if logit {
                        c.log.push(json!({"ev": "Drop", "id": d.id, "to": d.to, "t": t}));
                    }
                    return true;
                }
                Some("delay") => {
                    d.deliver_at = now + action.unwrap().1;
                    d.decided = true;
                    // a delayed copy is exempt from further random delay decisions only by chance
                    if logit {
                        let until = d.deliver_at - c.epoch_ns;
                        c.log.push(json!({"ev": "Delay", "id": d.id, "to": d.to, "until": until, "t": t}));
                    }
                    c.inflight.push(d);
                    return true;
                }
                Some("dup") => {
                    let mut copy = d.clone();
                    copy.deliver_at = now; // delivered again right after
                    copy.decided = true;
                    let nid = c.next_dgram;
                    c.next_dgram += 1;
                    copy.id = nid;
                    if logit {
                        c.log.push(json!({"ev": "Dup", "id": d.id, "copy": nid, "to": d.to, "t": t}));
                        let mut ev = json!({"ev": "Send", "id": nid, "from": d.from, "to": d.to, "meta": d.meta, "t": t, "dupof": d.id});
                        ev["subs"] = d.desc["subs"].clone();
                        c.log.push(ev);
                    }
                    c.inflight.push(copy);
                }
                _ => {}
            }
            if logit {
                c.log.push(json!({"ev": "Deliver", "id": d.id, "to": d.to, "t": t}));
            }
            deliver = Some((c.parts[d.to].receiver.clone(), d.bytes.clone()));
        }
        if let Some((rx, bytes)) = deliver {
            let sp = SimSpawner(self.core.clone());
            sp.spawn(async move {
                rx.receive_message((*bytes).clone()).await;
            });
        }
        true
    }

    /// Advance the clock to the next timer or delayed datagram. Returns false if nothing is scheduled.
    fn step_time(&self, limit_ns: i64) -> bool {
        let mut c = self.core.lock();
        let hold_user = c.hold_user;
        let next_t = c.timers.iter().map(|t| t.deadline).min();
        let next_d = c.inflight.iter().filter(|d| !(hold_user && !d.meta)).map(|d| d.deliver_at).min();
        let next = match (next_t, next_d) {
            (Some(a), Some(b)) => a.min(b),
            (Some(a), None) => a,
            (None, Some(b)) => b,
            (None, None) => return false,
        };
        if next > limit_ns {
            return false;
        }
        if next > c.now_ns {
            c.now_ns = next;
        }
        let now = c.now_ns;
        let mut wakers = Vec::new();
        for t in c.timers.iter_mut() {
            if t.deadline <= now {
                if let Some(w) = t.waker.take() {
                    wakers.push(w);
                }
            }
        }
        drop(c);
        for w in wakers {
            w.wake();
        }
        true
    }

    /// Run the scenario future to completion (or budget exhaustion).
    pub fn run<F: Future>(&self, scenario: F, max_steps: u64, max_virtual_ns: i64) -> Result<F::Output, SimError> {
        let mut scenario = std::pin::pin!(scenario);
        let flag = Arc::new(FlagWaker(AtomicBool::new(true)));
        let waker = Waker::from(flag.clone());
        // the budget of virtual time is per run (scenario), not per process
        let limit = self.core.now_ns() + max_virtual_ns;
        let mut iters: u64 = 0;
        loop {
            iters += 1;
            if iters > max_steps {
                let c = self.core.lock();
                return Err(SimError::Hang(format!("step budget {max_steps} exceeded at t={} ready={:?} timers={:?} inflight={} tasks={}", c.now_ns - c.epoch_ns, c.ready, c.timers.iter().map(|t| (t.id, t.deadline - c.now_ns, t.waker.is_some())).collect::<Vec<_>>(), c.inflight.len(), c.tasks.len())));
            }
            if self.core.lock().zero_delay_run > 10_000 {
                return Err(SimError::Hang("worker requests zero delays forever".into()));
            }
            if flag.0.swap(false, Ordering::SeqCst) {
                let mut cx = Context::from_waker(&waker);
                if let Poll::Ready(v) = scenario.as_mut().poll(&mut cx) {
                    return Ok(v);
                }
                continue;
            }
            if self.step_task() {
                continue;
            }
            if self.step_net() {
                continue;
            }
            if self.step_time(limit) {
                continue;
            }
            return Err(SimError::Deadlock(format!("nothing runnable at t={}", self.core.now_ns() - self.core.lock().epoch_ns)));
        }
    }

    pub fn take_log(&self) -> Vec<Value> {
        std::mem::take(&mut self.core.lock().log)
    }
}

/// Sleep usable from scenario code (not logged as a worker sleep).
pub fn sleep(core: &Core, ns: i64) -> SimSleep {
    SimSleep { core: core.clone(), dur_ns: ns, id: None, deadline: 0, log: false }
}

/// Race a future against a simulated timeout.
pub async fn with_timeout<F: Future>(core: &Core, ns: i64, f: F) -> Option<F::Output> {
    let mut f = std::pin::pin!(f);
    let mut s = std::pin::pin!(sleep(core, ns));
    std::future::poll_fn(|cx| {
        if let Poll::Ready(v) = f.as_mut().poll(cx) {
            return Poll::Ready(Some(v));
        }
        if let Poll::Ready(()) = s.as_mut().poll(cx) {
            return Poll::Ready(None);
        }
        Poll::Pending
    })
    .await
}
