fn main() { println!("vh"); }
