mod adv;
mod cache;
mod chan;
mod compat;
mod ent;
mod replay;
mod scen;
mod keyhash;
mod qosm;
mod sim;
mod stdtimer;
mod timeconv;
mod wack;
mod winst;
mod wire;

use serde_json::{Value, json};
use std::alloc::{GlobalAlloc, Layout, System};
use std::sync::atomic::{AtomicUsize, Ordering};

/// Counting allocator: current and peak number of live heap bytes (C06 memory bound).
struct Counting;
static CUR: AtomicUsize = AtomicUsize::new(0);
static PEAK: AtomicUsize = AtomicUsize::new(0);
unsafe impl GlobalAlloc for Counting {
    unsafe fn alloc(&self, l: Layout) -> *mut u8 {
        let p = unsafe { System.alloc(l) };
        if !p.is_null() {
            let c = CUR.fetch_add(l.size(), Ordering::Relaxed) + l.size();
            PEAK.fetch_max(c, Ordering::Relaxed);
        }
        p
    }
    unsafe fn dealloc(&self, p: *mut u8, l: Layout) {
        unsafe { System.dealloc(p, l) };
        CUR.fetch_sub(l.size(), Ordering::Relaxed);
    }
    unsafe fn alloc_zeroed(&self, l: Layout) -> *mut u8 {
        let p = unsafe { System.alloc_zeroed(l) };
        if !p.is_null() {
            let c = CUR.fetch_add(l.size(), Ordering::Relaxed) + l.size();
            PEAK.fetch_max(c, Ordering::Relaxed);
        }
        p
    }
    unsafe fn realloc(&self, p: *mut u8, l: Layout, new_size: usize) -> *mut u8 {
        let q = unsafe { System.realloc(p, l, new_size) };
        if !q.is_null() {
            if new_size >= l.size() {
                let c = CUR.fetch_add(new_size - l.size(), Ordering::Relaxed) + (new_size - l.size());
                PEAK.fetch_max(c, Ordering::Relaxed);
            } else {
                CUR.fetch_sub(l.size() - new_size, Ordering::Relaxed);
            }
        }
        q
    }
}
#[global_allocator]
static ALLOC: Counting = Counting;
pub fn alloc_current() -> usize { CUR.load(Ordering::Relaxed) }
pub fn alloc_reset_peak() { PEAK.store(CUR.load(Ordering::Relaxed), Ordering::Relaxed) }
pub fn alloc_peak() -> usize { PEAK.load(Ordering::Relaxed) }

fn arg(args: &[String], name: &str) -> Option<String> {
    args.iter().position(|a| a == name).and_then(|p| args.get(p + 1).cloned())
}

fn main() {
    let args: Vec<String> = std::env::args().collect();
    if args.len() < 2 {
        eprintln!("usage: vh <replay|replayops> ...");
        std::process::exit(2);
    }
    match args[1].as_str() {
        // vh replay <module> --cfg <json file> --edges <file> --out <file>
        "replay" | "replayops" => {
            let module = args[2].clone();
            let cfg: Value = serde_json::from_str(
                &std::fs::read_to_string(arg(&args, "--cfg").expect("--cfg")).expect("cfg file"),
            )
            .expect("cfg json");
            let out = arg(&args, "--out").expect("--out");
            let maxdiv: usize = arg(&args, "--maxdiv").and_then(|s| s.parse().ok()).unwrap_or(3);
            let report: Value = match module.as_str() {
                "ReaderCache" => {
                    let c = cache::CacheCfg::from_json(&cfg);
                    let make = || cache::CacheModel::new(&c);
                    if args[1] == "replay" {
                        replay::replay_graph(&arg(&args, "--edges").expect("--edges"), &make, maxdiv).json
                    } else {
                        let ops: Value = serde_json::from_str(
                            &std::fs::read_to_string(arg(&args, "--ops").expect("--ops")).unwrap(),
                        )
                        .unwrap();
                        replay::replay_ops(ops.as_array().unwrap(), &make)
                    }
                }
                "Entities" => {
                    let cfgc = cfg.clone();
                    let make = || ent::EntModel::new(&cfgc);
                    if args[1] == "replay" {
                        replay::replay_graph(&arg(&args, "--edges").expect("--edges"), &make, maxdiv).json
                    } else {
                        let ops: Value = serde_json::from_str(&std::fs::read_to_string(arg(&args, "--ops").expect("--ops")).unwrap()).unwrap();
                        replay::replay_ops(ops.as_array().unwrap(), &make)
                    }
                }
                "WriterAcks" => {
                    let cfgc = cfg.clone();
                    let make = || wack::WAckModel::new(&cfgc);
                    if args[1] == "replay" {
                        replay::replay_graph(&arg(&args, "--edges").expect("--edges"), &make, maxdiv).json
                    } else {
                        let ops: Value = serde_json::from_str(&std::fs::read_to_string(arg(&args, "--ops").expect("--ops")).unwrap()).unwrap();
                        replay::replay_ops(ops.as_array().unwrap(), &make)
                    }
                }
                "WriterInst" => {
                    let cfgc = cfg.clone();
                    let make = || winst::WInstModel::new(&cfgc);
                    if args[1] == "replay" {
                        replay::replay_graph(&arg(&args, "--edges").expect("--edges"), &make, maxdiv).json
                    } else {
                        let ops: Value = serde_json::from_str(&std::fs::read_to_string(arg(&args, "--ops").expect("--ops")).unwrap()).unwrap();
                        replay::replay_ops(ops.as_array().unwrap(), &make)
                    }
                }
                "Qos" => {
                    let cfgc = cfg.clone();
                    let make = || qosm::QosModel::new(&cfgc);
                    if args[1] == "replay" {
                        replay::replay_graph(&arg(&args, "--edges").expect("--edges"), &make, maxdiv).json
                    } else {
                        let ops: Value = serde_json::from_str(&std::fs::read_to_string(arg(&args, "--ops").expect("--ops")).unwrap()).unwrap();
                        replay::replay_ops(ops.as_array().unwrap(), &make)
                    }
                }
                "FragSize" => {
                    let cfgc = cfg.clone();
                    let make = || chan::FragModel::new(&cfgc);
                    if args[1] == "replay" {
                        replay::replay_graph(&arg(&args, "--edges").expect("--edges"), &make, maxdiv).json
                    } else {
                        let ops: Value = serde_json::from_str(&std::fs::read_to_string(arg(&args, "--ops").expect("--ops")).unwrap()).unwrap();
                        replay::replay_ops(ops.as_array().unwrap(), &make)
                    }
                }
                "Channels" | "StatusWait" => {
                    let is_chan = module == "Channels";
                    let cfgc = cfg.clone();
                    if is_chan {
                        let make = || chan::ChanModel::new(&cfgc);
                        if args[1] == "replay" {
                            replay::replay_graph(&arg(&args, "--edges").expect("--edges"), &make, maxdiv).json
                        } else {
                            let ops: Value = serde_json::from_str(&std::fs::read_to_string(arg(&args, "--ops").expect("--ops")).unwrap()).unwrap();
                            replay::replay_ops(ops.as_array().unwrap(), &make)
                        }
                    } else {
                        let make = || chan::CondModel::new(&cfgc);
                        if args[1] == "replay" {
                            replay::replay_graph(&arg(&args, "--edges").expect("--edges"), &make, maxdiv).json
                        } else {
                            let ops: Value = serde_json::from_str(&std::fs::read_to_string(arg(&args, "--ops").expect("--ops")).unwrap()).unwrap();
                            replay::replay_ops(ops.as_array().unwrap(), &make)
                        }
                    }
                }
                other => {
                    eprintln!("unknown module {other}");
                    std::process::exit(2);
                }
            };
            std::fs::write(&out, serde_json::to_string(&report).unwrap()).unwrap();
            let _ = json!(null);
        }
        // vh compat --cases <ndjson> --out <file>
        "timer" => {
            let n = |k: &str, d: usize| arg(&args, k).and_then(|s| s.parse().ok()).unwrap_or(d);
            stdtimer::run(&arg(&args, "--out").expect("--out"), n("--threads", 8), n("--sleeps", 40), n("--seed", 1) as u64);
        }
        "keyhash" => {
            let rep = keyhash::run_cases(&arg(&args, "--cases").expect("--cases"));
            std::fs::write(arg(&args, "--out").expect("--out"), serde_json::to_string(&rep).unwrap()).unwrap();
        }
        "wire" => {
            let rep = wire::run_cases(&arg(&args, "--cases").expect("--cases"));
            std::fs::write(arg(&args, "--out").expect("--out"), serde_json::to_string(&rep).unwrap()).unwrap();
        }
        "timeconv" => {
            let rep = timeconv::run_cases(&arg(&args, "--cases").expect("--cases"), args.iter().any(|a| a == "--exhaustive"));
            std::fs::write(arg(&args, "--out").expect("--out"), serde_json::to_string(&rep).unwrap()).unwrap();
        }
        "compat" => {
            let rep = compat::run_cases(&arg(&args, "--cases").expect("--cases"));
            std::fs::write(arg(&args, "--out").expect("--out"), serde_json::to_string(&rep).unwrap()).unwrap();
        }
        // vh sim --scenarios <ndjson> --out <trace ndjson> [--start n]
        "sim" => {
            let scen_path = arg(&args, "--scenarios").expect("--scenarios");
            let out = arg(&args, "--out").expect("--out");
            let start: usize = arg(&args, "--start").and_then(|s| s.parse().ok()).unwrap_or(0);
            let text = std::fs::read_to_string(&scen_path).expect("scenario file");
            use std::io::Write;
            let mut f = std::fs::OpenOptions::new().create(true).append(true).open(&out).unwrap();
            let mut status = json!({"done": 0, "error": null});
            // wall-clock watchdog: a scenario that makes no progress for VH_WALL_LIMIT seconds (an endless loop in the
            // code under test is not bounded by the virtual clock) is recorded as a hang and the process exits with 3
            let limit: u64 = std::env::var("VH_WALL_LIMIT").ok().and_then(|s| s.parse().ok()).unwrap_or(120);
            static STARTED: std::sync::atomic::AtomicU64 = std::sync::atomic::AtomicU64::new(0);
            static CURRENT: AtomicUsize = AtomicUsize::new(0);
            let now_s = || std::time::SystemTime::now().duration_since(std::time::UNIX_EPOCH).unwrap().as_secs();
            {
                let out = out.clone();
                std::thread::spawn(move || loop {
                    std::thread::sleep(std::time::Duration::from_millis(500));
                    let st = STARTED.load(Ordering::Relaxed);
                    if st != 0 && now_s().saturating_sub(st) > limit {
                        let n = CURRENT.load(Ordering::Relaxed);
                        let mut f = std::fs::OpenOptions::new().create(true).append(true).open(&out).unwrap();
                        let log = scen::global().sim.core.0.try_lock().map(|mut c| std::mem::take(&mut c.log)).unwrap_or_default();
                        if log.first().map(|e| e["ev"] != "Reset").unwrap_or(true) {
                            writeln!(f, "{}", json!({"ev": "Reset", "name": "hang", "t": 0})).unwrap();
                        }
                        for e in &log {
                            writeln!(f, "{}", serde_json::to_string(e).unwrap()).unwrap();
                        }
                        writeln!(f, "{}", json!({"ev": "SimError", "scenario": n, "err": format!("hang: scenario did not finish within {limit} s of wall-clock time")})).unwrap();
                        f.flush().ok();
                        std::process::exit(3);
                    }
                });
            }
            for (n, line) in text.lines().enumerate() {
                if n < start || line.trim().is_empty() {
                    continue;
                }
                let sc: Value = serde_json::from_str(line).expect("scenario json");
                CURRENT.store(n, Ordering::Relaxed);
                STARTED.store(now_s(), Ordering::Relaxed);
                let res = std::panic::catch_unwind(|| scen::run_scenario(&sc));
                STARTED.store(0, Ordering::Relaxed);
                match res {
                    Ok((log, err)) => {
                        for e in &log {
                            writeln!(f, "{}", serde_json::to_string(e).unwrap()).unwrap();
                        }
                        if let Some(e) = err {
                            writeln!(f, "{}", json!({"ev": "SimError", "scenario": n, "err": e})).unwrap();
                            status = json!({"done": n + 1, "error": e, "at": n});
                            break;
                        }
                    }
                    Err(p) => {
                        let msg = p.downcast_ref::<String>().cloned().or_else(|| p.downcast_ref::<&str>().map(|s| s.to_string())).unwrap_or("panic".into());
                        // the events recorded up to the panic (starting with the scenario's Reset)
                        let log = scen::global().sim.core.0.try_lock().map(|mut c| std::mem::take(&mut c.log))
                            .unwrap_or_else(|e| match e { std::sync::TryLockError::Poisoned(p) => std::mem::take(&mut p.into_inner().log), _ => vec![] });
                        if log.first().map(|e| e["ev"] != "Reset").unwrap_or(true) {
                            writeln!(f, "{}", json!({"ev": "Reset", "name": sc["name"], "t": 0})).unwrap();
                        }
                        for e in &log {
                            writeln!(f, "{}", serde_json::to_string(e).unwrap()).unwrap();
                        }
                        writeln!(f, "{}", json!({"ev": "SimError", "scenario": n, "err": format!("panic: {msg}")})).unwrap();
                        status = json!({"done": n + 1, "error": format!("panic: {msg}"), "at": n});
                        break;
                    }
                }
                status["done"] = json!(n + 1);
            }
            println!("{}", status);
        }
        other => {
            eprintln!("unknown command {other}");
            std::process::exit(2);
        }
    }
}
