mod cache;
mod replay;

use serde_json::{Value, json};

fn arg(args: &[String], name: &str) -> Option<String> {
    args.iter().position(|a| a == name).and_then(|p| args.get(p + 1).cloned())
}

fn main() {
    let args: Vec<String> = std::env::args().collect();
    if args.len() < 2 {
        eprintln!("usage: vh <replay|replayops> ...");
        std::process::exit(2);
    }
    match args[1].as_str() {
        // vh replay <module> --cfg <json file> --edges <file> --out <file>
        "replay" | "replayops" => {
            let module = args[2].clone();
            let cfg: Value = serde_json::from_str(
                &std::fs::read_to_string(arg(&args, "--cfg").expect("--cfg")).expect("cfg file"),
            )
            .expect("cfg json");
            let out = arg(&args, "--out").expect("--out");
            let maxdiv: usize = arg(&args, "--maxdiv").and_then(|s| s.parse().ok()).unwrap_or(3);
            let report: Value = match module.as_str() {
                "ReaderCache" => {
                    let c = cache::CacheCfg::from_json(&cfg);
                    let make = || cache::CacheModel::new(&c);
                    if args[1] == "replay" {
                        replay::replay_graph(&arg(&args, "--edges").expect("--edges"), &make, maxdiv).json
                    } else {
                        let ops: Value = serde_json::from_str(
                            &std::fs::read_to_string(arg(&args, "--ops").expect("--ops")).unwrap(),
                        )
                        .unwrap();
                        replay::replay_ops(ops.as_array().unwrap(), &make)
                    }
                }
                other => {
                    eprintln!("unknown module {other}");
                    std::process::exit(2);
                }
            };
            std::fs::write(&out, serde_json::to_string(&report).unwrap()).unwrap();
            let _ = json!(null);
        }
        other => {
            eprintln!("unknown command {other}");
            std::process::exit(2);
        }
    }
}
