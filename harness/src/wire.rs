//! Wire.tla cases on the real RTPS message encoder / decoder (C08): the library encodes the abstract
//! message, the length fields are compared with the specification's, the bytes with an independent
//! encoder (both byte orders), and the decoded submessages with the abstract ones.
use dust_dds::rtps_messages::overall_structure::{RtpsMessageHeader, RtpsMessageRead, RtpsMessageWrite, RtpsSubmessageReadKind, Submessage};
use dust_dds::rtps_messages::submessage_elements::{Data, FragmentNumberSet, Parameter, ParameterList, SequenceNumberSet, SerializedDataFragment};
use dust_dds::rtps_messages::submessages::{
    ack_nack::AckNackSubmessage, data::DataSubmessage, data_frag::DataFragSubmessage, gap::GapSubmessage, heartbeat::HeartbeatSubmessage,
    heartbeat_frag::HeartbeatFragSubmessage, info_destination::InfoDestinationSubmessage, info_source::InfoSourceSubmessage,
    info_timestamp::InfoTimestampSubmessage, nack_frag::NackFragSubmessage,
};
use dust_dds::rtps_messages::types::Time;
use dust_dds::transport::types::{EntityId, ProtocolVersion};
use serde_json::{Value, json};
use std::collections::BTreeMap;

fn sn(v: &Value) -> i64 {
    match v.as_str().unwrap() {
        "ONE" => 1, "TWO" => 2, "N255" => 255, "N256" => 256, "BIG" => 1 << 32, "BIGM1" => (1 << 32) - 1,
        "MAXM300" => i64::MAX - 300, "MAX" => i64::MAX, o => panic!("sn {o}"),
    }
}
fn u32v(v: &Value) -> u32 {
    match v.as_str().unwrap() {
        "ZERO" => 0, "ONE" => 1, "TWO" => 2, "MAX16" => 65535, "BIG" => 1 << 20, "MAX31" => i32::MAX as u32, "MAX32" => u32::MAX, o => panic!("u32 {o}"),
    }
}
fn flag(v: &Value) -> bool { v == "T" }
fn prefix(v: &Value) -> [u8; 12] {
    match v.as_str().unwrap() { "zero" => [0; 12], "ff" => [0xff; 12], _ => [1, 2, 3, 4, 5, 6, 7, 8, 9, 10, 11, 12] }
}
fn ents(v: &Value) -> ([u8; 4], [u8; 4]) {
    match v.as_str().unwrap_or("user_rw") {
        "builtin" => ([0, 0, 3, 0xc7], [0, 0, 3, 0xc2]),
        "unknown" => ([0, 0, 0, 0], [0, 0, 0, 0]),
        _ => ([1, 2, 3, 0x07], [4, 5, 6, 0x02]),
    }
}
fn eid(b: [u8; 4]) -> EntityId { EntityId::new([b[0], b[1], b[2]], b[3]) }
fn offsets(v: &Value) -> Vec<u32> { let mut o: Vec<u32> = v.as_array().map(|a| a.iter().map(|x| x.as_u64().unwrap() as u32).collect()).unwrap_or_default(); o.sort(); o }
fn payload(n: usize) -> Vec<u8> { (0..n).map(|k| (k * 7 + 3) as u8).collect() }
fn params(iq: &str) -> Vec<(u16, Vec<u8>)> {
    match iq {
        "keyhash" => vec![(0x70, (1..=16).collect())],
        "status" => vec![(0x71, vec![0, 0, 0, 1])],
        "both" => vec![(0x70, (1..=16).collect()), (0x71, vec![0, 0, 0, 3])],
        "odd" => vec![(0x2c, vec![9, 8, 7, 6, 5])],
        _ => vec![],
    }
}

/// independent encoder
struct W { b: Vec<u8>, le: bool }
impl W {
    fn u16(&mut self, v: u16) { if self.le { self.b.extend_from_slice(&v.to_le_bytes()) } else { self.b.extend_from_slice(&v.to_be_bytes()) } }
    fn u32(&mut self, v: u32) { if self.le { self.b.extend_from_slice(&v.to_le_bytes()) } else { self.b.extend_from_slice(&v.to_be_bytes()) } }
    fn sn(&mut self, v: i64) { self.u32((v >> 32) as u32); self.u32(v as u32); }
    fn raw(&mut self, v: &[u8]) { self.b.extend_from_slice(v) }
    fn bitmap(&mut self, offs: &[u32]) {
        let nb = offs.iter().max().map(|m| m + 1).unwrap_or(0);
        self.u32(nb);
        let words = nb.div_ceil(32) as usize;
        let mut w = vec![0u32; words];
        for o in offs { w[(*o / 32) as usize] |= 1 << (31 - o % 32); }
        for x in w { self.u32(x); }
    }
    fn iq(&mut self, iq: &str) {
        if iq == "none" { return; }
        for (pid, val) in params(iq) {
            let padded = val.len().div_ceil(4) * 4;
            self.u16(pid); self.u16(padded as u16); self.raw(&val); self.raw(&vec![0u8; padded - val.len()]);
        }
        self.u16(1); self.u16(0);
    }
}
fn own_submessage(s: &Value, le: bool, last: bool) -> Vec<u8> {
    let (r, wr) = ents(&s["ent"]);
    let mut w = W { b: vec![], le };
    let mut flags: u8 = if le { 1 } else { 0 };
    let id = match s["k"].as_str().unwrap() {
        "ACKNACK" => { w.raw(&r); w.raw(&wr); w.sn(sn(&s["base"])); w.bitmap(&offsets(&s["set"])); w.u32(u32v(&s["count"])); if flag(&s["final"]) { flags |= 2 } 0x06 }
        "HEARTBEAT" => { w.raw(&r); w.raw(&wr); w.sn(sn(&s["first"])); w.sn(sn(&s["last"])); w.u32(u32v(&s["count"])); if flag(&s["final"]) { flags |= 2 } if flag(&s["liveliness"]) { flags |= 4 } 0x07 }
        "GAP" => { w.raw(&r); w.raw(&wr); w.sn(sn(&s["start"])); w.sn(sn(&s["base"])); w.bitmap(&offsets(&s["set"])); 0x08 }
        "NACK_FRAG" => { w.raw(&r); w.raw(&wr); w.sn(sn(&s["sn"])); w.u32(u32v(&s["fbase"])); w.bitmap(&offsets(&s["set"])); w.u32(u32v(&s["count"])); 0x12 }
        "HEARTBEAT_FRAG" => { w.raw(&r); w.raw(&wr); w.sn(sn(&s["sn"])); w.u32(u32v(&s["lastfrag"])); w.u32(u32v(&s["count"])); 0x13 }
        "INFO_TS" => { if flag(&s["invalidate"]) { flags |= 2 } else { w.u32(u32v(&s["sec"])); w.u32(u32v(&s["frac"])); } 0x09 }
        "INFO_DST" => { w.raw(&prefix(&s["prefix"])); 0x0e }
        "INFO_SRC" => { w.u32(0); w.raw(&[2, 4]); w.raw(&[1, 0x14]); w.raw(&prefix(&s["prefix"])); 0x0c }
        "DATA" => {
            let iq = s["iq"].as_str().unwrap();
            w.u16(0); w.u16(16); w.raw(&r); w.raw(&wr); w.sn(sn(&s["sn"]));
            if iq != "none" { flags |= 2; w.iq(iq); }
            match s["dk"].as_str().unwrap() { "data" => flags |= 4, "key" => flags |= 8, _ => {} }
            if s["dk"] != "neither" { w.raw(&payload(s["plen"].as_u64().unwrap() as usize)); }
            0x15
        }
        "DATA_FRAG" => {
            let iq = s["iq"].as_str().unwrap();
            w.u16(0); w.u16(28); w.raw(&r); w.raw(&wr); w.sn(sn(&s["sn"]));
            w.u32(u32v(&s["fstart"])); w.u16(u32v(&s["fcount"]) as u16); w.u16(u32v(&s["fsize"]) as u16); w.u32(u32v(&s["ssize"]));
            if iq != "none" { flags |= 2; w.iq(iq); }
            if flag(&s["key"]) { flags |= 4 }
            w.raw(&payload(s["plen"].as_u64().unwrap() as usize));
            0x16
        }
        o => panic!("kind {o}"),
    };
    let len = if w.b.len() > 65535 { assert!(last); 0u16 } else { w.b.len() as u16 };
    let mut out = vec![id, flags];
    if le { out.extend_from_slice(&len.to_le_bytes()) } else { out.extend_from_slice(&len.to_be_bytes()) }
    out.extend_from_slice(&w.b);
    out
}
fn own_message(m: &Value, le: bool) -> Vec<u8> {
    let mut out = b"RTPS".to_vec();
    out.extend_from_slice(&[2, 4, 1, 0x14]);
    out.extend_from_slice(&prefix(&m["prefix"]));
    let subs = m["subs"].as_array().unwrap();
    for (k, s) in subs.iter().enumerate() { out.extend_from_slice(&own_submessage(s, le, k + 1 == subs.len())); }
    out
}

fn lib_submessage(s: &Value) -> Box<dyn Submessage + Send> {
    let (r, wr) = ents(&s["ent"]);
    let (r, wr) = (eid(r), eid(wr));
    let plist = |iq: &str| ParameterList::new(params(iq).into_iter().map(|(p, v)| Parameter::new(p as i16, v.into())).collect());
    match s["k"].as_str().unwrap() {
        "ACKNACK" => { let b = sn(&s["base"]); Box::new(AckNackSubmessage::new(flag(&s["final"]), r, wr, SequenceNumberSet::new(b, offsets(&s["set"]).into_iter().map(|o| b + o as i64)), u32v(&s["count"]) as i32)) }
        "HEARTBEAT" => Box::new(HeartbeatSubmessage::new(flag(&s["final"]), flag(&s["liveliness"]), r, wr, sn(&s["first"]), sn(&s["last"]), u32v(&s["count"]) as i32)),
        "GAP" => { let b = sn(&s["base"]); Box::new(GapSubmessage::new(r, wr, sn(&s["start"]), SequenceNumberSet::new(b, offsets(&s["set"]).into_iter().map(|o| b + o as i64)))) }
        "NACK_FRAG" => { let b = u32v(&s["fbase"]); Box::new(NackFragSubmessage::new(r, wr, sn(&s["sn"]), FragmentNumberSet::new(b, offsets(&s["set"]).into_iter().map(|o| b + o)), u32v(&s["count"]) as i32)) }
        "HEARTBEAT_FRAG" => Box::new(HeartbeatFragSubmessage::_new(r, wr, sn(&s["sn"]), u32v(&s["lastfrag"]), u32v(&s["count"]) as i32)),
        "INFO_TS" => Box::new(InfoTimestampSubmessage::new(flag(&s["invalidate"]), Time::new(u32v(&s["sec"]), u32v(&s["frac"])))),
        "INFO_DST" => Box::new(InfoDestinationSubmessage::new(prefix(&s["prefix"]))),
        "INFO_SRC" => Box::new(InfoSourceSubmessage::_new(ProtocolVersion::new(2, 4), [1, 0x14], prefix(&s["prefix"]))),
        "DATA" => {
            let iq = s["iq"].as_str().unwrap();
            let dk = s["dk"].as_str().unwrap();
            Box::new(DataSubmessage::new(iq != "none", dk == "data", dk == "key", false, r, wr, sn(&s["sn"]), plist(iq), Data::from(payload(s["plen"].as_u64().unwrap() as usize))))
        }
        "DATA_FRAG" => {
            let iq = s["iq"].as_str().unwrap();
            let p = payload(s["plen"].as_u64().unwrap() as usize);
            Box::new(DataFragSubmessage::new(iq != "none", false, flag(&s["key"]), r, wr, sn(&s["sn"]), u32v(&s["fstart"]), u32v(&s["fcount"]) as u16,
                                            u32v(&s["fsize"]) as u16, u32v(&s["ssize"]), plist(iq), SerializedDataFragment::from(&p[..])))
        }
        o => panic!("kind {o}"),
    }
}

fn plist_eq(l: &ParameterList, iq: &str) -> bool {
    let want = params(iq);
    // values come back padded to a multiple of four
    l.parameter().len() == want.len() && l.parameter().iter().zip(want.iter()).all(|(p, (pid, v))| p.parameter_id() == *pid as i16 && p.value().len() >= v.len() && &p.value()[..v.len()] == &v[..] && p.value()[v.len()..].iter().all(|b| *b == 0))
}
fn compare(s: &Value, d: &RtpsSubmessageReadKind) -> Option<String> {
    let (r, wr) = ents(&s["ent"]);
    let (r, wr) = (eid(r), eid(wr));
    let offs = offsets(&s["set"]);
    macro_rules! chk { ($name:expr, $a:expr, $b:expr) => { if $a != $b { return Some(format!("{}: expected {:?}, decoded {:?}", $name, $b, $a)); } }; }
    match (s["k"].as_str().unwrap(), d) {
        ("ACKNACK", RtpsSubmessageReadKind::AckNack(x)) => {
            chk!("readerId", *x.reader_id(), r); chk!("writerId", *x.writer_id(), wr); chk!("final", x._final_flag(), flag(&s["final"]));
            chk!("base", x.reader_sn_state().base(), sn(&s["base"])); chk!("count", x.count(), u32v(&s["count"]) as i32);
            chk!("set", x.reader_sn_state().set().collect::<Vec<_>>(), offs.iter().map(|o| sn(&s["base"]) + *o as i64).collect::<Vec<_>>());
        }
        ("HEARTBEAT", RtpsSubmessageReadKind::Heartbeat(x)) => {
            chk!("readerId", x._reader_id(), r); chk!("writerId", x.writer_id(), wr); chk!("final", x.final_flag(), flag(&s["final"])); chk!("liveliness", x.liveliness_flag(), flag(&s["liveliness"]));
            chk!("first", x.first_sn(), sn(&s["first"])); chk!("last", x.last_sn(), sn(&s["last"])); chk!("count", x.count(), u32v(&s["count"]) as i32);
        }
        ("GAP", RtpsSubmessageReadKind::Gap(x)) => {
            chk!("readerId", x._reader_id(), r); chk!("writerId", x.writer_id(), wr); chk!("start", x.gap_start(), sn(&s["start"])); chk!("base", x.gap_list().base(), sn(&s["base"]));
            chk!("set", x.gap_list().set().collect::<Vec<_>>(), offs.iter().map(|o| sn(&s["base"]) + *o as i64).collect::<Vec<_>>());
        }
        ("NACK_FRAG", RtpsSubmessageReadKind::NackFrag(x)) => {
            chk!("readerId", x.reader_id(), r); chk!("writerId", x._writer_id(), wr); chk!("sn", x.writer_sn(), sn(&s["sn"])); chk!("count", x.count(), u32v(&s["count"]) as i32);
            chk!("base", x.fragment_number_state().base(), u32v(&s["fbase"]));
            chk!("set", x.fragment_number_state().set().collect::<Vec<_>>(), offs.iter().map(|o| u32v(&s["fbase"]) + *o).collect::<Vec<_>>());
        }
        ("HEARTBEAT_FRAG", RtpsSubmessageReadKind::HeartbeatFrag(x)) => {
            chk!("readerId", x._reader_id(), r); chk!("writerId", x.writer_id(), wr); chk!("sn", x._writer_sn(), sn(&s["sn"])); chk!("lastfrag", x._last_fragment_num(), u32v(&s["lastfrag"])); chk!("count", x.count(), u32v(&s["count"]) as i32);
        }
        ("INFO_TS", RtpsSubmessageReadKind::InfoTimestamp(x)) => {
            chk!("invalidate", x.invalidate_flag(), flag(&s["invalidate"]));
            if !flag(&s["invalidate"]) { chk!("sec", x.timestamp().seconds(), u32v(&s["sec"])); chk!("frac", x.timestamp().fraction(), u32v(&s["frac"])); }
        }
        ("INFO_DST", RtpsSubmessageReadKind::InfoDestination(x)) => { chk!("prefix", x.guid_prefix(), prefix(&s["prefix"])); }
        ("INFO_SRC", RtpsSubmessageReadKind::InfoSource(x)) => { chk!("prefix", x.guid_prefix(), prefix(&s["prefix"])); chk!("vendor", x.vendor_id(), [1, 0x14]); }
        ("DATA", RtpsSubmessageReadKind::Data(x)) => {
            let dk = s["dk"].as_str().unwrap();
            let iq = s["iq"].as_str().unwrap();
            chk!("readerId", x.reader_id(), r); chk!("writerId", x.writer_id(), wr); chk!("sn", x.writer_sn(), sn(&s["sn"]));
            chk!("dataFlag", x._data_flag(), dk == "data"); chk!("keyFlag", x._key_flag(), dk == "key"); chk!("inlineQosFlag", x._inline_qos_flag(), iq != "none");
            if !plist_eq(x.inline_qos(), iq) { return Some(format!("inlineQos: decoded {:?}", x.inline_qos())); }
            let want = if dk == "neither" { vec![] } else { payload(s["plen"].as_u64().unwrap() as usize) };
            if x.serialized_payload().as_ref() != &want[..] { return Some(format!("payload: expected {} bytes, decoded {} bytes (or different content)", want.len(), x.serialized_payload().as_ref().len())); }
        }
        ("DATA_FRAG", RtpsSubmessageReadKind::DataFrag(x)) => {
            let iq = s["iq"].as_str().unwrap();
            chk!("readerId", x.reader_id(), r); chk!("writerId", x.writer_id(), wr); chk!("sn", x.writer_sn(), sn(&s["sn"]));
            chk!("keyFlag", x.key_flag(), flag(&s["key"])); chk!("inlineQosFlag", x.inline_qos_flag(), iq != "none");
            chk!("fstart", x.fragment_starting_num(), u32v(&s["fstart"])); chk!("fcount", x.fragments_in_submessage(), u32v(&s["fcount"]) as u16);
            chk!("fsize", x.fragment_size(), u32v(&s["fsize"]) as u16); chk!("ssize", x.data_size(), u32v(&s["ssize"]));
            if !plist_eq(x.inline_qos(), iq) { return Some(format!("inlineQos: decoded {:?}", x.inline_qos())); }
            let want = payload(s["plen"].as_u64().unwrap() as usize);
            if x.serialized_payload().as_ref() != &want[..] { return Some(format!("payload: expected {} bytes, decoded {} bytes (or different content)", want.len(), x.serialized_payload().as_ref().len())); }
        }
        (k, other) => return Some(format!("kind: expected {k}, decoded {other:?}").chars().take(200).collect()),
    }
    None
}

fn check_decode(m: &Value, bytes: &[u8], what: &str) -> Option<(String, String)> {
    let subs = m["subs"].as_array().unwrap();
    let r = std::panic::catch_unwind(|| RtpsMessageRead::try_from(bytes));
    let msg = match r {
        Err(_) => return Some((format!("{what}:decoder-panic"), "the decoder panicked".into())),
        Ok(Err(e)) => return Some((format!("{what}:message-rejected"), format!("{e:?}"))),
        Ok(Ok(m)) => m,
    };
    if msg.header().guid_prefix() != prefix(&m["prefix"]) {
        return Some((format!("{what}:header"), "guid prefix differs".into()));
    }
    if msg.submessages().len() != subs.len() {
        return Some((format!("{what}:{}:submessage-count", subs.last().unwrap()["k"].as_str().unwrap()), format!("expected {} submessages, decoded {}", subs.len(), msg.submessages().len())));
    }
    for (s, d) in subs.iter().zip(msg.submessages().iter()) {
        if let Some(diff) = compare(s, d) {
            let field = diff.split(':').next().unwrap_or("").to_string();
            return Some((format!("{what}:{}:{}", s["k"].as_str().unwrap(), field), diff));
        }
    }
    None
}

pub fn run_cases(path: &str) -> Value {
    let text = std::fs::read_to_string(path).expect("cases");
    std::panic::set_hook(Box::new(|_| {}));
    let mut distinct: BTreeMap<String, Value> = BTreeMap::new();
    let mut evaluated = 0u64;
    let mut kinds: BTreeMap<String, u64> = BTreeMap::new();
    let mut big = 0u64;
    for line in text.lines() {
        if line.trim().is_empty() { continue; }
        let m: Value = serde_json::from_str(line).unwrap();
        evaluated += 1;
        let subs = m["subs"].as_array().unwrap();
        for s in subs { *kinds.entry(s["k"].as_str().unwrap().to_string()).or_insert(0) += 1; }
        let mut diverge = |sig: String, detail: String| { distinct.entry(sig.clone()).or_insert_with(|| json!({"sig": sig, "case": m, "detail": detail})); };
        // 1. the library encodes
        let built = std::panic::catch_unwind(|| {
            let boxed: Vec<Box<dyn Submessage + Send>> = subs.iter().map(lib_submessage).collect();
            let refs: Vec<&(dyn Submessage + Send)> = boxed.iter().map(|b| b.as_ref()).collect();
            let header = RtpsMessageHeader::new(ProtocolVersion::new(2, 4), [1, 0x14], prefix(&m["prefix"]));
            RtpsMessageWrite::new(&header, &refs).buffer().to_vec()
        });
        let bytes = match built {
            Ok(b) => b,
            Err(_) => { diverge(format!("Wire:encode:{}:encoder-panic", subs.last().unwrap()["k"].as_str().unwrap()), "the encoder panicked".into()); continue; }
        };
        if bytes.len() > 65535 { big += 1; }
        // 2. lengths as the specification computes them
        if bytes.len() as i64 != m["e"]["total"].as_i64().unwrap() {
            diverge(format!("Wire:encode:{}:message-length", subs.last().unwrap()["k"].as_str().unwrap()), format!("expected {} octets, encoded {}", m["e"]["total"], bytes.len()));
        }
        let mut pos = 20usize;
        for (n, s) in subs.iter().enumerate() {
            if pos + 4 > bytes.len() { diverge(format!("Wire:encode:{}:truncated", s["k"].as_str().unwrap()), "submessage header beyond the end".into()); break; }
            let field = u16::from_le_bytes([bytes[pos + 2], bytes[pos + 3]]) as i64;
            let want = m["e"]["lens"][n].as_i64().unwrap();
            if field != want {
                diverge(format!("Wire:encode:{}:length-field{}", s["k"].as_str().unwrap(), if want == 0 { ":larger-than-65535" } else { "" }), format!("octetsToNextHeader: expected {want}, encoded {field}"));
            }
            let own = own_submessage(s, true, n + 1 == subs.len());
            pos += own.len();
        }
        // 3. byte for byte against the independent encoder (little endian, what the library writes)
        let own_le = own_message(&m, true);
        if own_le != bytes {
            let at = own_le.iter().zip(bytes.iter()).position(|(a, b)| a != b).unwrap_or(own_le.len().min(bytes.len()));
            diverge(format!("Wire:encode:{}:bytes-differ-from-independent-encoder", subs.last().unwrap()["k"].as_str().unwrap()), format!("first difference at offset {at} (library {} octets, independent {} octets)", bytes.len(), own_le.len()));
        }
        // 4. decode what the library wrote, and the same message in both byte orders from the independent encoder
        if let Some((sig, d)) = check_decode(&m, &bytes, "Wire:roundtrip") { diverge(sig, d); }
        if let Some((sig, d)) = check_decode(&m, &own_le, "Wire:decode-le") { diverge(sig, d); }
        if let Some((sig, d)) = check_decode(&m, &own_message(&m, false), "Wire:decode-be") { diverge(sig, d); }
    }
    json!({"evaluated": evaluated, "kinds": kinds, "messages_larger_than_65535": big, "distinct": distinct.values().collect::<Vec<_>>()})
}
