//! Channels.tla and StatusWait.tla bound to the real channel / status condition objects (C34, C32).
use crate::replay::Model;
use dust_dds::infrastructure::status::StatusKind;
use dust_dds::verif::channels::{
    mpsc::{MpscReceiver, MpscSender, mpsc_channel},
    notification::{NotificationReceiver, NotificationSender, notification},
    oneshot::{OneshotReceiver, OneshotSender, oneshot},
};
use dust_dds::verif::{DcpsStatusCondition, StatusMask};
use serde_json::{Value, json};
use std::future::Future;
use std::pin::Pin;
use std::sync::Arc;
use std::sync::atomic::{AtomicU32, Ordering};
use std::task::{Context, Poll, Wake, Waker};

struct CountWaker(AtomicU32);
impl Wake for CountWaker {
    fn wake(self: Arc<Self>) {
        self.0.fetch_add(1, Ordering::SeqCst);
    }
}

enum Chan {
    Oneshot(Option<OneshotSender<u32>>, Pin<Box<OneshotReceiver<u32>>>),
    Mpsc(Vec<MpscSender<u32>>, MpscReceiver<u32>),
    Notif(Vec<NotificationSender>, Pin<Box<NotificationReceiver>>),
}

pub struct ChanModel {
    ch: Chan,
    wakers: Vec<Arc<CountWaker>>, // index = waker id
    received: Vec<u32>,
    registered: u32,
}

impl ChanModel {
    pub fn new(cfg: &Value) -> Self {
        let ch = match cfg["Kind"].as_str().unwrap_or("oneshot") {
            "oneshot" => {
                let (s, r) = oneshot::<u32>();
                Chan::Oneshot(Some(s), Box::pin(r))
            }
            "mpsc" => {
                let (s, r) = mpsc_channel::<u32>();
                Chan::Mpsc(vec![s], r)
            }
            _ => {
                let (s, r) = notification();
                Chan::Notif(vec![s], Box::pin(r))
            }
        };
        ChanModel { ch, wakers: (0..4).map(|_| Arc::new(CountWaker(AtomicU32::new(0)))).collect(), received: vec![], registered: 0 }
    }
}

impl Model for ChanModel {
    fn apply(&mut self, op: &Value) -> Value {
        match op["op"].as_str().unwrap() {
            "Send" => {
                let v = op["v"].as_u64().unwrap() as u32;
                match &mut self.ch {
                    Chan::Oneshot(s, _) => {
                        if let Some(s) = s.take() {
                            s.send(v);
                        }
                    }
                    Chan::Mpsc(s, _) => {
                        let _ = s[0].send(v);
                    }
                    Chan::Notif(s, _) => s[0].notify(),
                }
                json!({"res": "Ok"})
            }
            "Clone" => {
                match &mut self.ch {
                    Chan::Mpsc(s, _) => {
                        let c = s[0].clone();
                        s.push(c);
                    }
                    Chan::Notif(s, _) => {
                        let c = s[0].clone();
                        s.push(c);
                    }
                    _ => {}
                }
                json!({"res": "Ok"})
            }
            "DropSender" => {
                match &mut self.ch {
                    Chan::Oneshot(s, _) => {
                        s.take();
                    }
                    Chan::Mpsc(s, _) => {
                        s.pop();
                    }
                    Chan::Notif(s, _) => {
                        s.pop();
                    }
                }
                json!({"res": "Ok"})
            }
            "Poll" => {
                let k = op["k"].as_u64().unwrap() as usize;
                let waker = Waker::from(self.wakers[k].clone());
                let mut cx = Context::from_waker(&waker);
                let r: Poll<Result<u32, ()>> = match &mut self.ch {
                    Chan::Oneshot(_, r) => r.as_mut().poll(&mut cx).map(|x| x.map_err(|_| ())),
                    Chan::Mpsc(_, r) => {
                        let mut f = std::pin::pin!(r.receive());
                        f.as_mut().poll(&mut cx).map(|x| x.ok_or(()))
                    }
                    Chan::Notif(_, r) => r.as_mut().poll(&mut cx).map(|x| x.map(|_| 1).map_err(|_| ())),
                };
                match r {
                    Poll::Ready(Ok(v)) => {
                        self.received.push(v);
                        json!({"res": "Ready", "v": v})
                    }
                    Poll::Ready(Err(())) => json!({"res": "Disconnected"}),
                    Poll::Pending => {
                        self.registered = k as u32;
                        json!({"res": "Pending"})
                    }
                }
            }
            other => panic!("unknown op {other}"),
        }
    }

    fn project(&self) -> Value {
        // only what is observable from outside: wake-up counts per waker and the received values
        let woken: Vec<u32> = (1..=2).map(|k| self.wakers[k].0.load(Ordering::SeqCst)).collect();
        json!({"woken": woken, "received": self.received})
    }

    fn compare_state(&self, expected: &Value, got: &Value) -> Option<String> {
        crate::replay::compare(&json!({"woken": expected["woken"], "received": expected["received"]}), got, "state")
    }
}

// ---------------------------------------------------------------------------------------------
pub struct CondModel {
    pcs: Vec<&'static str>,
    c: DcpsStatusCondition,
    waiters: Vec<Option<Pin<Box<NotificationReceiver>>>>,
    wakers: Vec<Arc<CountWaker>>,
}
fn status(n: u64) -> StatusKind {
    match n {
        1 => StatusKind::DataAvailable,
        2 => StatusKind::SubscriptionMatched,
        _ => StatusKind::SampleRejected,
    }
}
fn mask(v: &Value) -> StatusMask {
    let ks: Vec<StatusKind> = v.as_array().map(|a| a.iter().map(|x| status(x.as_u64().unwrap())).collect()).unwrap_or_default();
    ks.iter().collect()
}
impl CondModel {
    pub fn new(cfg: &Value) -> Self {
        let mut c = DcpsStatusCondition::default();
        c.set_enabled_statuses(mask(&cfg["InitEnabled"]));
        CondModel { pcs: vec!["idle"; 4], c, waiters: (0..4).map(|_| None).collect(), wakers: (0..4).map(|_| Arc::new(CountWaker(AtomicU32::new(0)))).collect() }
    }
    /// observe (without losing it) which waiters have been released
    fn refresh(&mut self) {
        for w in 0..self.waiters.len() {
            if self.waiters[w].is_some() && self.notified(w) == "released" {
                self.pcs[w] = "released";
            }
        }
    }
    fn notified(&mut self, w: usize) -> &'static str {
        // a waiter is released iff its notification future is ready
        let waker = Waker::from(self.wakers[w].clone());
        let mut cx = Context::from_waker(&waker);
        match self.waiters[w].as_mut() {
            None => "none",
            Some(r) => match r.as_mut().poll(&mut cx) {
                Poll::Ready(_) => {
                    self.waiters[w] = None;
                    "released"
                }
                Poll::Pending => "waiting",
            },
        }
    }
}
impl Model for CondModel {
    fn apply(&mut self, op: &Value) -> Value {
        let r = self.apply_inner(op);
        self.refresh();
        r
    }
    fn project(&self) -> Value {
        json!({"trigger": self.c.get_trigger_value(), "pc": [self.pcs[1], self.pcs[2]]})
    }
    fn compare_state(&self, expected: &Value, got: &Value) -> Option<String> {
        crate::replay::compare(&json!({"trigger": expected["trigger"], "pc": expected["pc"]}), got, "state")
    }
}
impl CondModel {
    fn apply_inner(&mut self, op: &Value) -> Value {
        match op["op"].as_str().unwrap() {
            "Raise" => {
                self.c.add_communication_state(status(op["s"].as_u64().unwrap()));
                json!({"res": "Ok", "trigger": self.c.get_trigger_value()})
            }
            "Read" => {
                self.c.remove_communication_state(status(op["s"].as_u64().unwrap()));
                json!({"res": "Ok", "trigger": self.c.get_trigger_value()})
            }
            "SetEnabled" => {
                self.c.set_enabled_statuses(mask(&op["m"]));
                json!({"res": "Ok", "trigger": self.c.get_trigger_value()})
            }
            "Register" => {
                let w = op["w"].as_u64().unwrap() as usize;
                let (s, r) = notification();
                self.waiters[w] = Some(Box::pin(r));
                self.pcs[w] = "registered";
                self.c.register_notification(s);
                json!({"res": "Ok", "trigger": self.c.get_trigger_value()})
            }
            "Await" => {
                let w = op["w"].as_u64().unwrap() as usize;
                self.refresh();
                if self.pcs[w] == "released" {
                    self.pcs[w] = "idle";
                    json!({"res": "released"})
                } else {
                    json!({"res": "waiting"})
                }
            }
            other => panic!("unknown op {other}"),
        }
    }

}


// ---------------------------------------------------------------------------------------------
/// FragSize.tla bound to RtpsUdpTransportParticipantFactory::set_fragment_size (C38)
pub struct FragModel {
    f: dust_dds::rtps_udp_transport::udp_transport::RtpsUdpTransportParticipantFactory,
}
impl FragModel {
    pub fn new(_cfg: &Value) -> Self {
        FragModel { f: Default::default() }
    }
}
impl Model for FragModel {
    fn apply(&mut self, op: &Value) -> Value {
        let v = op["v"].as_u64().unwrap();
        let v = if v == 2_000_000_000 { usize::MAX } else { v as usize };
        match self.f.set_fragment_size(v) {
            Ok(_) => json!({"res": "Ok"}),
            Err(e) => json!({"res": format!("{e:?}")}),
        }
    }
    fn project(&self) -> Value {
        json!({"cur": self.f.fragment_size()})
    }
}
