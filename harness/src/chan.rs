//! Channels.tla and StatusWait.tla bound to the real channel / status condition objects (C34, C32).
use crate::replay::Model;
use dust_dds::infrastructure::status::StatusKind;
use dust_dds::verif::channels::{
    mpsc::{MpscReceiver, MpscSender, mpsc_channel},
    notification::{NotificationReceiver, NotificationSender, notification},
    oneshot::{OneshotReceiver, OneshotSender, oneshot},
};
use dust_dds::verif::{DcpsStatusCondition, StatusMask};
use serde_json::{Value, json};
use std::future::Future;
use std::pin::Pin;
use std::sync::Arc;
use std::sync::atomic::{AtomicU32, Ordering};
use std::task::{Context, Poll, Wake, Waker};

struct CountWaker(AtomicU32);
impl Wake for CountWaker {
    fn wake(self: Arc<Self>) {
        self.0.fetch_add(1, Ordering::SeqCst);
    }
}

/// Waker with a wake-up counter whose clone() can run a one-shot action: cloning the waker is the one
/// externally visible point inside a channel's poll, so another thread's operation can be issued "during" the poll.
pub struct Hook {
    wakes: AtomicU32,
    gate: std::sync::Mutex<Option<Box<dyn FnOnce() + Send>>>,
    /// one-shot action run when the waker is woken (the woken task "runs at once")
    wake_gate: std::sync::Mutex<Option<Box<dyn FnOnce() + Send>>>,
}
impl Hook {
    fn new() -> Arc<Hook> {
        Arc::new(Hook { wakes: AtomicU32::new(0), gate: std::sync::Mutex::new(None), wake_gate: std::sync::Mutex::new(None) })
    }
    fn fire(&self) {
        let g = self.gate.lock().unwrap().take();
        if let Some(g) = g {
            g()
        }
    }
    fn fire_wake(&self) {
        let g = self.wake_gate.lock().unwrap().take();
        if let Some(g) = g {
            g()
        }
    }
}
mod rawhook {
    use super::Hook;
    use std::sync::Arc;
    use std::sync::atomic::Ordering;
    use std::task::{RawWaker, RawWakerVTable, Waker};
    static VTABLE: RawWakerVTable = RawWakerVTable::new(clone, wake, wake_by_ref, drop_raw);
    fn raw(h: Arc<Hook>) -> RawWaker {
        RawWaker::new(Arc::into_raw(h) as *const (), &VTABLE)
    }
    unsafe fn clone(p: *const ()) -> RawWaker {
        let h = unsafe { Arc::from_raw(p as *const Hook) };
        h.fire();
        let c = h.clone();
        std::mem::forget(h);
        raw(c)
    }
    unsafe fn wake(p: *const ()) {
        let h = unsafe { Arc::from_raw(p as *const Hook) };
        h.wakes.fetch_add(1, Ordering::SeqCst);
        h.fire_wake();
    }
    unsafe fn wake_by_ref(p: *const ()) {
        let h = unsafe { &*(p as *const Hook) };
        h.wakes.fetch_add(1, Ordering::SeqCst);
        h.fire_wake();
    }
    unsafe fn drop_raw(p: *const ()) {
        drop(unsafe { Arc::from_raw(p as *const Hook) });
    }
    pub fn waker(h: Arc<Hook>) -> Waker {
        unsafe { Waker::from_raw(raw(h)) }
    }
}

enum Chan {
    Oneshot(Option<OneshotSender<u32>>, Pin<Box<OneshotReceiver<u32>>>),
    Mpsc(Vec<MpscSender<u32>>, MpscReceiver<u32>),
    Notif(Vec<NotificationSender>, Pin<Box<NotificationReceiver>>),
}

pub struct ChanModel {
    ch: Chan,
    wakers: Vec<Arc<Hook>>, // index = waker id
    received: Vec<u32>,
    registered: u32,
    nwk: usize,
}

impl ChanModel {
    pub fn new(cfg: &Value) -> Self {
        let ch = match cfg["Kind"].as_str().unwrap_or("oneshot") {
            "oneshot" => {
                let (s, r) = oneshot::<u32>();
                Chan::Oneshot(Some(s), Box::pin(r))
            }
            "mpsc" => {
                let (s, r) = mpsc_channel::<u32>();
                Chan::Mpsc(vec![s], r)
            }
            _ => {
                let (s, r) = notification();
                Chan::Notif(vec![s], Box::pin(r))
            }
        };
        let nwk = cfg["Wakers"].as_array().map(|a| a.len()).unwrap_or(2);
        ChanModel { ch, wakers: (0..=nwk).map(|_| Hook::new()).collect(), received: vec![], registered: 0, nwk }
    }
}

impl Model for ChanModel {
    fn apply(&mut self, op: &Value) -> Value {
        match op["op"].as_str().unwrap() {
            "Send" => {
                let v = op["v"].as_u64().unwrap() as u32;
                match &mut self.ch {
                    Chan::Oneshot(s, _) => {
                        if let Some(s) = s.take() {
                            s.send(v);
                        }
                    }
                    Chan::Mpsc(s, _) => {
                        let _ = s[0].send(v);
                    }
                    Chan::Notif(s, _) => s[0].notify(),
                }
                json!({"res": "Ok"})
            }
            "Clone" => {
                match &mut self.ch {
                    Chan::Mpsc(s, _) => {
                        let c = s[0].clone();
                        s.push(c);
                    }
                    Chan::Notif(s, _) => {
                        let c = s[0].clone();
                        s.push(c);
                    }
                    _ => {}
                }
                json!({"res": "Ok"})
            }
            "DropSender" => {
                match &mut self.ch {
                    Chan::Oneshot(s, _) => {
                        s.take();
                    }
                    Chan::Mpsc(s, _) => {
                        s.pop();
                    }
                    Chan::Notif(s, _) => {
                        s.pop();
                    }
                }
                json!({"res": "Ok"})
            }
            "PollRacing" => {
                // another thread's send / drop of the last sender is issued from inside poll (at the waker clone)
                let k = op["k"].as_u64().unwrap() as usize;
                let prev = op["prevwaker"].as_u64().unwrap_or(0) as usize;
                let v = op["v"].as_u64().unwrap() as u32;
                let send = op["other"] == "send";
                let hook = self.wakers[k].clone();
                let (go_tx, go_rx) = std::sync::mpsc::channel::<()>();
                let (done_tx, done_rx) = std::sync::mpsc::channel::<()>();
                *hook.gate.lock().unwrap() = Some(Box::new(move || {
                    let _ = go_tx.send(());
                    // in correct code the other thread is blocked by the critical section of the poll we are in
                    let _ = done_rx.recv_timeout(std::time::Duration::from_millis(150));
                }));
                let waker = rawhook::waker(hook.clone());
                let mut cx = Context::from_waker(&waker);
                let r: Poll<Result<u32, ()>> = match &mut self.ch {
                    Chan::Oneshot(s, r) => {
                        let snd = s.take();
                        std::thread::scope(|sc| {
                            sc.spawn(move || {
                                let _ = go_rx.recv();
                                if let Some(snd) = snd { if send { snd.send(v) } else { drop(snd) } }
                                let _ = done_tx.send(());
                            });
                            let r = r.as_mut().poll(&mut cx).map(|x| x.map_err(|_| ()));
                            hook.fire();
                            r
                        })
                    }
                    Chan::Mpsc(s, r) => {
                        let dropped = if send { None } else { s.pop() };
                        let snd = s.first();
                        std::thread::scope(|sc| {
                            sc.spawn(move || {
                                let _ = go_rx.recv();
                                if send { if let Some(snd) = snd { let _ = snd.send(v); } } else { drop(dropped) }
                                let _ = done_tx.send(());
                            });
                            let mut f = std::pin::pin!(r.receive());
                            let r = f.as_mut().poll(&mut cx).map(|x| x.ok_or(()));
                            hook.fire();
                            r
                        })
                    }
                    Chan::Notif(s, r) => {
                        let dropped = if send { None } else { s.pop() };
                        let snd = s.first();
                        std::thread::scope(|sc| {
                            sc.spawn(move || {
                                let _ = go_rx.recv();
                                if send { if let Some(snd) = snd { snd.notify(); } } else { drop(dropped) }
                                let _ = done_tx.send(());
                            });
                            let r = r.as_mut().poll(&mut cx).map(|x| x.map(|_| 1).map_err(|_| ()));
                            hook.fire();
                            r
                        })
                    }
                };
                let res = match r {
                    Poll::Ready(Ok(v)) => { self.received.push(v); "Ready" }
                    Poll::Ready(Err(())) => "Disconnected",
                    Poll::Pending => "Pending",
                };
                let woken = self.wakers[k].wakes.load(Ordering::SeqCst);
                let prevw = if prev != 0 && prev != k { self.wakers[prev].wakes.load(Ordering::SeqCst) } else { 0 };
                json!({"res": res, "woken": woken, "prev": prevw})
            }
            "SendWokenRuns" => {
                // the task woken by the send runs at once: another thread polls the receiver the moment wake() is called
                let k = op["k"].as_u64().unwrap() as usize;
                let v = op["v"].as_u64().unwrap() as u32;
                let hook = self.wakers[k].clone();
                let (go_tx, go_rx) = std::sync::mpsc::channel::<()>();
                let (done_tx, done_rx) = std::sync::mpsc::channel::<()>();
                *hook.wake_gate.lock().unwrap() = Some(Box::new(move || {
                    let _ = go_tx.send(());
                    // in correct code the polling thread is held back by the critical section of the send we are in (if the
                    // waker is called inside it) or finds the value already there
                    let _ = done_rx.recv_timeout(std::time::Duration::from_millis(150));
                }));
                let waker = rawhook::waker(hook.clone());
                let r: Poll<Result<u32, ()>> = match &mut self.ch {
                    Chan::Oneshot(s, r) => {
                        let snd = s.take();
                        std::thread::scope(|sc| {
                            let h = sc.spawn(move || {
                                let _ = go_rx.recv();
                                let mut cx = Context::from_waker(&waker);
                                let x = r.as_mut().poll(&mut cx).map(|x| x.map_err(|_| ()));
                                let _ = done_tx.send(());
                                x
                            });
                            if let Some(snd) = snd { snd.send(v) }
                            hook.wake_gate.lock().unwrap().take();
                            h.join().unwrap()
                        })
                    }
                    Chan::Mpsc(s, r) => {
                        let snd = s.first();
                        std::thread::scope(|sc| {
                            let h = sc.spawn(move || {
                                let _ = go_rx.recv();
                                let mut cx = Context::from_waker(&waker);
                                let mut f = std::pin::pin!(r.receive());
                                let x = f.as_mut().poll(&mut cx).map(|x| x.ok_or(()));
                                let _ = done_tx.send(());
                                x
                            });
                            if let Some(snd) = snd { let _ = snd.send(v); }
                            hook.wake_gate.lock().unwrap().take();
                            h.join().unwrap()
                        })
                    }
                    Chan::Notif(s, r) => {
                        let snd = s.first();
                        std::thread::scope(|sc| {
                            let h = sc.spawn(move || {
                                let _ = go_rx.recv();
                                let mut cx = Context::from_waker(&waker);
                                let x = r.as_mut().poll(&mut cx).map(|x| x.map(|_| 1).map_err(|_| ()));
                                let _ = done_tx.send(());
                                x
                            });
                            if let Some(snd) = snd { snd.notify(); }
                            hook.wake_gate.lock().unwrap().take();
                            h.join().unwrap()
                        })
                    }
                };
                let res = match r {
                    Poll::Ready(Ok(v)) => { self.received.push(v); "Ready" }
                    Poll::Ready(Err(())) => "Disconnected",
                    Poll::Pending => "Pending",
                };
                json!({"res": res, "woken": self.wakers[k].wakes.load(Ordering::SeqCst)})
            }
            "Poll" => {
                let k = op["k"].as_u64().unwrap() as usize;
                let waker = rawhook::waker(self.wakers[k].clone());
                let mut cx = Context::from_waker(&waker);
                let r: Poll<Result<u32, ()>> = match &mut self.ch {
                    Chan::Oneshot(_, r) => r.as_mut().poll(&mut cx).map(|x| x.map_err(|_| ())),
                    Chan::Mpsc(_, r) => {
                        let mut f = std::pin::pin!(r.receive());
                        f.as_mut().poll(&mut cx).map(|x| x.ok_or(()))
                    }
                    Chan::Notif(_, r) => r.as_mut().poll(&mut cx).map(|x| x.map(|_| 1).map_err(|_| ())),
                };
                match r {
                    Poll::Ready(Ok(v)) => {
                        self.received.push(v);
                        json!({"res": "Ready", "v": v})
                    }
                    Poll::Ready(Err(())) => json!({"res": "Disconnected"}),
                    Poll::Pending => {
                        self.registered = k as u32;
                        json!({"res": "Pending"})
                    }
                }
            }
            other => panic!("unknown op {other}"),
        }
    }

    fn project(&self) -> Value {
        // only what is observable from outside: wake-up counts per waker and the received values
        let woken: Vec<u32> = (1..=self.nwk).map(|k| self.wakers[k].wakes.load(Ordering::SeqCst)).collect();
        json!({"woken": woken, "received": self.received})
    }

    fn compare_state(&self, expected: &Value, got: &Value) -> Option<String> {
        if expected["raced"] == true {
            // the racing pair may take either order (compared through the operation's result)
            return None;
        }
        crate::replay::compare(&json!({"woken": expected["woken"], "received": expected["received"]}), got, "state")
    }
}

// ---------------------------------------------------------------------------------------------
pub struct CondModel {
    pcs: Vec<&'static str>,
    c: DcpsStatusCondition,
    waiters: Vec<Option<Pin<Box<NotificationReceiver>>>>,
    wakers: Vec<Arc<CountWaker>>,
    nw: usize,
}
fn status(n: u64) -> StatusKind {
    match n {
        1 => StatusKind::DataAvailable,
        2 => StatusKind::SubscriptionMatched,
        _ => StatusKind::SampleRejected,
    }
}
fn mask(v: &Value) -> StatusMask {
    let ks: Vec<StatusKind> = v.as_array().map(|a| a.iter().map(|x| status(x.as_u64().unwrap())).collect()).unwrap_or_default();
    ks.iter().collect()
}
impl CondModel {
    pub fn new(cfg: &Value) -> Self {
        let mut c = DcpsStatusCondition::default();
        c.set_enabled_statuses(mask(&cfg["InitEnabled"]));
        let nw = cfg["Waiters"].as_array().map(|a| a.len()).unwrap_or(2);
        CondModel { pcs: vec!["idle"; nw + 1], c, waiters: (0..=nw).map(|_| None).collect(), wakers: (0..=nw).map(|_| Arc::new(CountWaker(AtomicU32::new(0)))).collect(), nw }
    }
    /// observe (without losing it) which waiters have been released
    fn refresh(&mut self) {
        for w in 0..self.waiters.len() {
            if self.waiters[w].is_some() && self.notified(w) == "released" {
                self.pcs[w] = "released";
            }
        }
    }
    fn notified(&mut self, w: usize) -> &'static str {
        // a waiter is released iff its notification future is ready
        let waker = Waker::from(self.wakers[w].clone());
        let mut cx = Context::from_waker(&waker);
        match self.waiters[w].as_mut() {
            None => "none",
            Some(r) => match r.as_mut().poll(&mut cx) {
                Poll::Ready(_) => {
                    self.waiters[w] = None;
                    "released"
                }
                Poll::Pending => "waiting",
            },
        }
    }
}
impl Model for CondModel {
    fn apply(&mut self, op: &Value) -> Value {
        let r = self.apply_inner(op);
        self.refresh();
        r
    }
    fn project(&self) -> Value {
        json!({"trigger": self.c.get_trigger_value(), "pc": self.pcs[1..=self.nw].to_vec()})
    }
    fn compare_state(&self, expected: &Value, got: &Value) -> Option<String> {
        crate::replay::compare(&json!({"trigger": expected["trigger"], "pc": expected["pc"]}), got, "state")
    }
}
impl CondModel {
    fn apply_inner(&mut self, op: &Value) -> Value {
        match op["op"].as_str().unwrap() {
            "Raise" => {
                self.c.add_communication_state(status(op["s"].as_u64().unwrap()));
                json!({"res": "Ok", "trigger": self.c.get_trigger_value()})
            }
            "Read" => {
                self.c.remove_communication_state(status(op["s"].as_u64().unwrap()));
                json!({"res": "Ok", "trigger": self.c.get_trigger_value()})
            }
            "SetEnabled" => {
                self.c.set_enabled_statuses(mask(&op["m"]));
                json!({"res": "Ok", "trigger": self.c.get_trigger_value()})
            }
            "Register" => {
                let w = op["w"].as_u64().unwrap() as usize;
                let (s, r) = notification();
                self.waiters[w] = Some(Box::pin(r));
                self.pcs[w] = "registered";
                self.c.register_notification(s);
                json!({"res": "Ok", "trigger": self.c.get_trigger_value()})
            }
            "Await" => {
                let w = op["w"].as_u64().unwrap() as usize;
                self.refresh();
                if self.pcs[w] == "released" {
                    self.pcs[w] = "idle";
                    json!({"res": "released"})
                } else {
                    json!({"res": "waiting"})
                }
            }
            other => panic!("unknown op {other}"),
        }
    }

}


// ---------------------------------------------------------------------------------------------
/// FragSize.tla bound to RtpsUdpTransportParticipantFactory::set_fragment_size (C38)
pub struct FragModel {
    f: dust_dds::rtps_udp_transport::udp_transport::RtpsUdpTransportParticipantFactory,
}
impl FragModel {
    pub fn new(_cfg: &Value) -> Self {
        FragModel { f: Default::default() }
    }
}
impl Model for FragModel {
    fn apply(&mut self, op: &Value) -> Value {
        let v = op["v"].as_u64().unwrap();
        let v = if v == 2_000_000_000 { usize::MAX } else if v == 2_000_000_001 { (1usize << 32) + 500 } else { v as usize };
        match self.f.set_fragment_size(v) {
            Ok(_) => json!({"res": "Ok"}),
            Err(e) => json!({"res": format!("{e:?}")}),
        }
    }
    fn project(&self) -> Value {
        json!({"cur": self.f.fragment_size()})
    }
}
