//! ReaderCache.tla bound to the real `UserDefinedDataReader` / `DataReaderEntity`.
use crate::replay::{Model, compare};
use dust_dds::infrastructure::{
    error::DdsError,
    instance::InstanceHandle,
    qos::{DataReaderQos, DataWriterQos, PublisherQos, TopicQos},
    qos_policy::{
        DestinationOrderQosPolicyKind, HistoryQosPolicyKind, Length, OwnershipQosPolicyKind,
    },
    sample_info::{InstanceStateKind, SampleInfo, SampleStateKind, ViewStateKind},
    status::SampleRejectedStatusKind,
    time::{Duration, DurationKind, Time},
};
use dust_dds::rtps::stateful_reader::RtpsStatefulReader;
use dust_dds::transport::types::{ChangeKind, EntityId, Guid, ReliabilityKind};
use dust_dds::verif::{AddChangeResult, StatusMask, UserDefinedDataReader};
use serde_json::{Value, json};
use std::sync::Arc;

pub struct CacheCfg {
    pub depth: u32,
    pub max_s: i32,
    pub max_i: i32,
    pub max_spi: i32,
    pub by_source: bool,
    pub exclusive: bool,
    pub strengths: Vec<i32>, // index = writer id
    pub min_sep: i32,
    pub writers: Vec<u8>,
}

impl CacheCfg {
    pub fn from_json(c: &Value) -> Self {
        let geti = |k: &str| c[k].as_i64().unwrap_or(0) as i32;
        let writers: Vec<u8> = c["Writers"]
            .as_array()
            .map(|a| a.iter().map(|x| x.as_u64().unwrap() as u8).collect())
            .unwrap_or_else(|| vec![1, 2]);
        let sname = c["StrengthOf"].as_str().unwrap_or("Strength0");
        let maxw = *writers.iter().max().unwrap_or(&2) as usize;
        let strengths = (0..=maxw)
            .map(|w| if sname == "Strength12" { w as i32 } else { 0 })
            .collect();
        CacheCfg {
            depth: geti("Depth") as u32,
            max_s: geti("MaxS"),
            max_i: geti("MaxI"),
            max_spi: geti("MaxSPI"),
            by_source: c["BySource"].as_bool().unwrap_or(false),
            exclusive: c["Exclusive"].as_bool().unwrap_or(false),
            strengths,
            min_sep: geti("MinSep"),
            writers,
        }
    }
}

/// instance i of the specification has the key i - 1: the first instance is the all-zero key, whose handle equals HANDLE_NIL
pub fn inst_handle(i: u64) -> InstanceHandle {
    let mut b = [0u8; 16];
    b[0] = (i - 1) as u8;
    InstanceHandle::new(b)
}
fn inst_of(h: [u8; 16]) -> u8 {
    h[0] + 1
}
pub fn writer_guid(w: u64) -> Guid {
    Guid::new([w as u8; 12], EntityId::new([0, 0, w as u8], 0x02))
}
// one abstract time unit = 400 ms, so that consecutive timestamps cross second boundaries with
// decreasing nanosecond parts (exercises the borrow in time arithmetic)
const UNIT_NS: u64 = 400_000_000;
fn ts_time(ts: u64) -> Time {
    let ns = ts * UNIT_NS;
    Time::new(1000 + (ns / 1_000_000_000) as i32, (ns % 1_000_000_000) as u32)
}
fn lim(v: i32) -> Length {
    if v == 0 {
        Length::Unlimited
    } else {
        Length::Limited(v)
    }
}

pub struct CacheModel {
    pub r: UserDefinedDataReader,
    by_source: bool,
    strengths: Vec<i32>,
    exclusive: bool,
}

impl CacheModel {
    pub fn new(cfg: &CacheCfg) -> Self {
        let mut qos = DataReaderQos::default();
        qos.history.kind = if cfg.depth == 0 {
            HistoryQosPolicyKind::KeepAll
        } else {
            HistoryQosPolicyKind::KeepLast(cfg.depth)
        };
        qos.resource_limits.max_samples = lim(cfg.max_s);
        qos.resource_limits.max_instances = lim(cfg.max_i);
        qos.resource_limits.max_samples_per_instance = lim(cfg.max_spi);
        qos.destination_order.kind = if cfg.by_source {
            DestinationOrderQosPolicyKind::BySourceTimestamp
        } else {
            DestinationOrderQosPolicyKind::ByReceptionTimestamp
        };
        qos.ownership.kind = if cfg.exclusive {
            OwnershipQosPolicyKind::Exclusive
        } else {
            OwnershipQosPolicyKind::Shared
        };
        if cfg.min_sep > 0 {
            qos.time_based_filter.minimum_separation =
                {
                    let ns = cfg.min_sep as u64 * UNIT_NS;
                    DurationKind::Finite(Duration::new((ns / 1_000_000_000) as i32, (ns % 1_000_000_000) as u32))
                };
        }
        let guid = Guid::new([9; 12], EntityId::new([0, 0, 9], 0x07));
        let mut r = UserDefinedDataReader::new(
            InstanceHandle::new(guid.into()),
            qos,
            "T".to_string(),
            None,
            StatusMask::default(),
            RtpsStatefulReader::new(guid, ReliabilityKind::Reliable),
        );
        r.enabled = true;
        let mut m = CacheModel {
            r,
            by_source: cfg.by_source,
            strengths: cfg.strengths.clone(),
            exclusive: cfg.exclusive,
        };
        for &w in &cfg.writers {
            m.match_writer(w as u64);
        }
        m
    }

    fn match_writer(&mut self, w: u64) {
        let mut wq = DataWriterQos::default();
        wq.ownership_strength.value = *self.strengths.get(w as usize).unwrap_or(&0);
        if self.exclusive {
            wq.ownership.kind = OwnershipQosPolicyKind::Exclusive;
        }
        let g: [u8; 16] = writer_guid(w).into();
        let d = dust_dds::verif::publication_builtin_topic_data(
            g,
            [w as u8; 16],
            "T",
            "T",
            &wq,
            &PublisherQos::default(),
            &TopicQos::default(),
        );
        self.r.add_matched_publication(d);
    }

    fn masks(op: &Value) -> (Vec<SampleStateKind>, Vec<ViewStateKind>, Vec<InstanceStateKind>) {
        let ss = op["ss"]
            .as_array()
            .unwrap()
            .iter()
            .map(|x| match x.as_str().unwrap() {
                "NOT_READ" => SampleStateKind::NotRead,
                _ => SampleStateKind::Read,
            })
            .collect();
        let vs = op["vs"]
            .as_array()
            .unwrap()
            .iter()
            .map(|x| match x.as_str().unwrap() {
                "NEW" => ViewStateKind::New,
                _ => ViewStateKind::NotNew,
            })
            .collect();
        let is = op["is"]
            .as_array()
            .unwrap()
            .iter()
            .map(|x| match x.as_str().unwrap() {
                "ALIVE" => InstanceStateKind::Alive,
                "DISPOSED" => InstanceStateKind::NotAliveDisposed,
                _ => InstanceStateKind::NotAliveNoWriters,
            })
            .collect();
        (ss, vs, is)
    }
}

fn ss_str(s: SampleStateKind) -> &'static str {
    match s {
        SampleStateKind::Read => "READ",
        SampleStateKind::NotRead => "NOT_READ",
    }
}
fn vs_str(s: ViewStateKind) -> &'static str {
    match s {
        ViewStateKind::New => "NEW",
        ViewStateKind::NotNew => "NOT_NEW",
    }
}
fn is_str(s: InstanceStateKind) -> &'static str {
    match s {
        InstanceStateKind::Alive => "ALIVE",
        InstanceStateKind::NotAliveDisposed => "DISPOSED",
        InstanceStateKind::NotAliveNoWriters => "NO_WRITERS",
    }
}
fn kind_str(k: ChangeKind) -> &'static str {
    match k {
        ChangeKind::Alive | ChangeKind::AliveFiltered => "ALIVE",
        ChangeKind::NotAliveDisposed => "DISPOSED",
        ChangeKind::NotAliveUnregistered => "UNREGISTERED",
        ChangeKind::NotAliveDisposedUnregistered => "DISPOSED_UNREGISTERED",
    }
}
fn id_of(data: &[u8]) -> u64 {
    if data.len() >= 4 {
        u32::from_le_bytes([data[0], data[1], data[2], data[3]]) as u64
    } else {
        0
    }
}
fn ts_of(t: Option<Time>) -> i64 {
    t.map(|t| (((t.sec() as i64 - 1000) * 1_000_000_000 + t.nanosec() as i64) / UNIT_NS as i64)).unwrap_or(-1)
}
fn writer_of(g: &[u8]) -> u64 {
    g[0] as u64
}

fn info_json(data: &[u8], si: &SampleInfo) -> Value {
    json!({
        "id": id_of(data),
        "i": inst_of(<[u8;16]>::from(si.instance_handle)),
        "w": writer_of(si.publication_handle.as_ref()),
        "valid": si.valid_data,
        "ts": ts_of(si.source_timestamp),
        "ss": ss_str(si.sample_state),
        "vs": vs_str(si.view_state),
        "is": is_str(si.instance_state),
        "dgc": si.disposed_generation_count,
        "nwgc": si.no_writers_generation_count,
        "sr": si.sample_rank,
        "gr": si.generation_rank,
        "agr": si.absolute_generation_rank,
    })
}

fn err_str(e: &DdsError) -> String {
    match e {
        DdsError::NoData => "NoData".into(),
        DdsError::BadParameter => "BadParameter".into(),
        DdsError::NotEnabled => "NotEnabled".into(),
        other => format!("{other:?}"),
    }
}

impl Model for CacheModel {
    fn apply(&mut self, op: &Value) -> Value {
        match op["op"].as_str().unwrap() {
            "Add" => {
                let w = op["w"].as_u64().unwrap();
                let i = op["i"].as_u64().unwrap();
                let id = op["id"].as_u64().unwrap() as u32;
                let kind = match op["kind"].as_str().unwrap() {
                    "ALIVE" => ChangeKind::Alive,
                    "DISPOSED" => ChangeKind::NotAliveDisposed,
                    "UNREGISTERED" => ChangeKind::NotAliveUnregistered,
                    "DISPOSED_UNREGISTERED" => ChangeKind::NotAliveDisposedUnregistered,
                    _ => ChangeKind::NotAliveDisposedUnregistered,
                };
                let ts = op["ts"].as_u64().unwrap();
                let mut data = id.to_le_bytes().to_vec();
                data.extend_from_slice(&[w as u8, i as u8, 0, 0]);
                // reception time: strictly increasing with the reception index
                let rt = Time::new(5000 + id as i32, 0);
                let res = self.r.add_reader_change(
                    writer_guid(w),
                    Arc::from(data.into_boxed_slice()),
                    kind,
                    inst_handle(i).into(),
                    Some(ts_time(ts)),
                    rt,
                );
                match res {
                    Ok(AddChangeResult::Added) => json!({"res": "Added"}),
                    Ok(AddChangeResult::NotAdded) => json!({"res": "NotAdded"}),
                    Ok(AddChangeResult::Rejected(h, reason)) => {
                        let reason = match reason {
                            SampleRejectedStatusKind::RejectedBySamplesLimit => "SAMPLES",
                            SampleRejectedStatusKind::RejectedByInstancesLimit => "INSTANCES",
                            SampleRejectedStatusKind::RejectedBySamplesPerInstanceLimit => {
                                "SAMPLES_PER_INSTANCE"
                            }
                            SampleRejectedStatusKind::NotRejected => "NOT_REJECTED",
                        };
                        json!({"res": "Rejected", "reason": reason, "handle": inst_of(<[u8;16]>::from(h))})
                    }
                    // an error (change of an unknown instance) means the change is ignored
                    Err(_) => json!({"res": "NotAdded", "err": true}),
                }
            }
            name @ ("Read" | "Take" | "ReadNext" | "TakeNext") => {
                let (ss, vs, is) = Self::masks(op);
                let max = match op["max"].as_i64().unwrap() {
                    0 => i32::MAX,
                    m => m as i32,
                };
                let h = op["inst"].as_u64().unwrap_or(0);
                let prev = op["prev"].as_u64().unwrap_or(0);
                let hopt = if h == 0 { None } else { Some(inst_handle(h)) };
                let popt = if prev == 0 { None } else { Some(inst_handle(prev)) };
                let res = match name {
                    "Read" => self.r.read(max, &ss, &vs, &is, &hopt),
                    "Take" => self.r.take(max, &ss, &vs, &is, &hopt),
                    "ReadNext" => self.r.read_next_instance(max, &popt, &ss, &vs, &is),
                    _ => self.r.take_next_instance(max, &popt, &ss, &vs, &is),
                };
                match res {
                    Ok(list) => {
                        let samples: Vec<Value> =
                            list.iter().map(|(d, si)| info_json(d, si)).collect();
                        json!({"res": "Ok", "samples": samples})
                    }
                    Err(e) => json!({"res": err_str(&e), "samples": []}),
                }
            }
            "Unmatch" => {
                let w = op["w"].as_u64().unwrap();
                let g: [u8; 16] = writer_guid(w).into();
                self.r.remove_matched_publication(&InstanceHandle::new(g));
                json!({"res": "Ok"})
            }
            "Match" => {
                let w = op["w"].as_u64().unwrap();
                self.match_writer(w);
                json!({"res": "Ok"})
            }
            other => panic!("unknown op {other}"),
        }
    }

    fn project(&self) -> Value {
        let samples: Vec<Value> = self
            .r
            .sample_list
            .iter()
            .map(|s| {
                json!({
                    "id": id_of(&s.data_value),
                    "i": inst_of(<[u8;16]>::from(s.instance_handle)),
                    "w": writer_of(&s.writer_guid),
                    "kind": kind_str(s.kind),
                    "ts": ts_of(s.source_timestamp),
                    "ss": ss_str(s.sample_state),
                    "dgc": s.disposed_generation_count,
                    "nwgc": s.no_writers_generation_count,
                })
            })
            .collect();
        let mut inst: Vec<(u8, Value)> = self
            .r
            .instances
            .iter()
            .map(|x| {
                let (v, s, d, n) = x.verif_snapshot();
                let i = inst_of(<[u8; 16]>::from(x.handle));
                (
                    i,
                    json!({"i": i, "view": vs_str(v), "is": is_str(s), "dgc": d, "nwgc": n}),
                )
            })
            .collect();
        inst.sort_by_key(|x| x.0);
        json!({"samples": samples, "inst": inst.into_iter().map(|x| x.1).collect::<Vec<_>>()})
    }

    fn compare_result(&self, op: &Value, got: &Value) -> Option<String> {
        let exp = &op["expect"];
        if op["op"] == "Add" {
            if exp["res"] != got["res"] {
                return Some(format!("expect.res: expected {}, got {}", exp["res"], got));
            }
            if exp["res"] == "Rejected" {
                let ok = exp["reasons"]
                    .as_array()
                    .map(|a| a.iter().any(|r| r == &got["reason"]))
                    .unwrap_or(false);
                if !ok {
                    return Some(format!(
                        "expect.reason: expected one of {}, got {}",
                        exp["reasons"], got["reason"]
                    ));
                }
            }
            return None;
        }
        if exp["res"] != got["res"] {
            return Some(format!("expect.res: expected {}, got {}", exp["res"], got["res"]));
        }
        if exp.get("samples").is_none() {
            return None;
        }
        if self.by_source {
            per_instance_compare(&exp["samples"], &got["samples"], "expect.samples")
        } else {
            compare(&exp["samples"], &got["samples"], "expect.samples")
        }
    }

    fn compare_state(&self, expected: &Value, got: &Value) -> Option<String> {
        // instances known to the spec must agree; the implementation may know more instances
        // only if the spec says nothing about them (it never does: compare exactly)
        // Instances the implementation knows but the spec does not (it heard of them through a
        // rejected or filtered change) are not judged as long as they hold no sample.
        let exp_ids: Vec<Value> = expected["inst"]
            .as_array()
            .map(|a| a.iter().map(|x| x["i"].clone()).collect())
            .unwrap_or_default();
        let got_inst: Vec<Value> = got["inst"]
            .as_array()
            .map(|a| {
                a.iter()
                    .filter(|x| {
                        exp_ids.contains(&x["i"])
                            || got["samples"]
                                .as_array()
                                .map(|s| s.iter().any(|y| y["i"] == x["i"]))
                                .unwrap_or(false)
                    })
                    .cloned()
                    .collect()
            })
            .unwrap_or_default();
        if let Some(d) = compare(&expected["inst"], &Value::Array(got_inst), "state.inst") {
            return Some(d);
        }
        if self.by_source {
            per_instance_compare(&expected["samples"], &got["samples"], "state.samples")
        } else {
            compare(&expected["samples"], &got["samples"], "state.samples")
        }
    }
}

/// Compare two sample lists as per-instance subsequences (cross-instance order not judged).
fn per_instance_compare(exp: &Value, got: &Value, path: &str) -> Option<String> {
    let e = exp.as_array().cloned().unwrap_or_default();
    let g = got.as_array().cloned().unwrap_or_default();
    if e.len() != g.len() {
        return Some(format!("{path}: expected {} samples, got {}: {exp} vs {got}", e.len(), g.len()));
    }
    let mut insts: Vec<Value> = e.iter().map(|s| s["i"].clone()).collect();
    insts.dedup();
    for s in g.iter() {
        if !insts.contains(&s["i"]) {
            insts.push(s["i"].clone());
        }
    }
    for i in insts {
        let ei: Vec<Value> = e.iter().filter(|s| s["i"] == i).cloned().collect();
        let gi: Vec<Value> = g.iter().filter(|s| s["i"] == i).cloned().collect();
        if let Some(d) = compare(&Value::Array(ei), &Value::Array(gi), &format!("{path}(instance {i})")) {
            return Some(d);
        }
    }
    None
}
